#!/usr/bin/env python3
"""mkcase.py <ID> <name> <dir: regress|findings> [key=value ...]  (source text on stdin)
Writes a replay-format case file holding an Evy source text."""
import json, os, sys
pid, name, kind = sys.argv[1:4]
case = {"src": sys.stdin.read()}
for kv in sys.argv[4:]:
    k, v = kv.split("=", 1)
    try:
        v = json.loads(v)
    except ValueError:
        pass
    case[k] = v
d = os.path.join("/verif", kind, pid)
os.makedirs(d, exist_ok=True)
path = os.path.join(d, name + ".json")
json.dump({"property": pid, "kind": "", "detail": "", "src": case["src"], "case": case}, open(path, "w"), indent=1, ensure_ascii=False)
print(path)
