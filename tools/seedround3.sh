#!/bin/bash
# seedround3.sh <ID>: verify both round-3 changes of a property and run the property's quick check against each
id=$1
for v in A B; do
  [ -f /tmp/seed3/$id-out/$v/patch.diff ] || { echo "NO-PATCH $id-3$v"; continue; }
  SEEDBASE=/tmp/seed3 /verif/tools/seedverify.sh $id $v out | sed "s|$id/$v|$id-3$v|"
  /verif/tools/seedrun.sh /tmp/seed3/$id-out/$v/patch.diff $id 2>&1 | grep SEEDRUN | sed "s|^SEEDRUN [^ ]*|SEEDRUN $id-3$v|" | cut -c1-200
done
