#!/bin/bash
# usage: tools/runall.sh <tier> <seed> [ids...]   — runs checks sequentially, prints one line each
tier=$1; seed=$2; shift 2
ids=${@:-C01 C02 C03 C04 C05 C06 C07 C08 C09 C10 C11 C12 C13 C14 C15 C16 C17 C18 C19 C20}
cd /verif
for id in $ids; do
  s=$(date +%s)
  VERIF_SEED=$seed ./check $id --tier $tier > /tmp/runall.$tier.$seed.$id.log 2>&1
  rc=$?
  e=$(date +%s)
  echo "$id tier=$tier seed=$seed exit=$rc secs=$((e-s)) viol=$(grep -c '^VIOLATION' /tmp/runall.$tier.$seed.$id.log) known=$(grep -c '^KNOWN-FINDING' /tmp/runall.$tier.$seed.$id.log)"
done
