#!/usr/bin/env python3
"""Regenerates /verif/MANIFEST.json from checks_config.py (single source of truth)."""
import json, os, subprocess, sys
sys.path.insert(0, "/verif")
from checks_config import PROPS, NOT_APPLICABLE, ENGINES, HOOK_COMMITS  # noqa

props = [json.loads(l) for l in open("/verif/properties.jsonl")]
checks = []
for p in props:
    pid = p["id"]
    if pid not in PROPS:
        continue
    c = PROPS[pid]
    checks.append({
        "property_id": pid,
        "quick_cmd": "./check %s --tier quick" % pid,
        "thorough_cmd": "./check %s --tier thorough" % pid,
        "evidence_file": "/verif/evidence/%s.json" % pid,
        "replay_cmd_template": "./check %s --replay {path}" % pid,
        "engine": c.get("engine", "harness"),
        "level_claimed": {"category": c["level"], "text": c["level_text"], "design_ref": "DESIGN.md section 1, " + pid},
        "level_note": c["level_note"],
        "technique": c["technique"],
    })
na = [{"property_id": p["id"], "reason": NOT_APPLICABLE.get(p["id"], "check not built yet in this session (planned, see DESIGN.md section 1)")}
      for p in props if p["id"] not in PROPS]
baseline = json.load(open("/root/.vp/BASELINE.json"))["cmd"]
m = {
    "version": 1,
    "setup_cmd": "cd /verif/harness && GOFLAGS=-mod=mod GOPROXY=off GOSUMDB=off GOTOOLCHAIN=local go build ./... && GOFLAGS=-mod=mod GOPROXY=off GOSUMDB=off GOTOOLCHAIN=local go vet ./h ./ev ./rec >/dev/null 2>&1; true",
    "hooks": {
        "guard": "verif",
        "enable": "go build/test -tags verif (the driver passes the tag when it builds the harness and the evy binary)",
        "baseline_off_cmd": baseline,
        "source_commits": HOOK_COMMITS,
        "add_only": True,
    },
    "engines": ENGINES,
    "checks": checks,
    "not_applicable": na,
    "notes": "All checks are property-based tests / fuzzers (rapid v1.3.0, sharded over processes) driven by ./check; see DESIGN.md. Known findings: known_findings.json.",
}
json.dump(m, open("/verif/MANIFEST.json", "w"), indent=1)
print("wrote MANIFEST.json:", len(checks), "checks,", len(na), "not applicable")
try:
    import jsonschema
    jsonschema.validate(m, json.load(open("/root/.vp/MANIFEST.schema.json")))
    print("schema ok")
except ImportError:
    pass
