#!/usr/bin/env python3
"""mkseedmeta.py: writes seeded/<ID>-<V>/meta.json from the sub-agents' notes and the logged runs
(/tmp/seed/verify.log = my re-verification, /tmp/seed/first.log = checks as they were when the
change arrived, /tmp/seed/final.log = checks as committed). Run once per seeding round."""
import json, os, re, sys
root = "/verif/seeded"
def parse(path, tag):
    out = {}
    try:
        for l in open(path):
            m = re.match(r"%s (C\d\d)[-/]([AB])\S* (.*)" % tag, l.strip())
            if m:
                out.setdefault(m.group(1) + "-" + m.group(2), []).append(m.group(3))
    except OSError:
        pass
    return out
verify = parse(sys.argv[1], "SEEDVERIFY")
first = parse(sys.argv[2], "SEEDRUN")
final = parse(sys.argv[3], "SEEDRUN")
strengthened = json.load(open(sys.argv[4])) if len(sys.argv) > 4 else {}
for d in sorted(os.listdir(root)):
    if not re.match(r"C\d\d-[AB]", d) or (len(sys.argv) > 5 and not d.endswith(sys.argv[5])):
        continue
    notes = ""
    try:
        notes = open(os.path.join(root, d, "notes.md")).read()
    except OSError:
        pass
    def caught(lines):
        if not lines:
            return None
        return any(" exit=1 " in " " + l + " " for l in lines)
    meta = {
        "property": d[:3],
        "variant": d[4:],
        "origin": "fresh sub-agent given only the property record and a scratch worktree under /tmp (nothing from /verif)",
        "files_changed": sorted(set(re.findall(r"^\+\+\+ b/(\S+)", open(os.path.join(root, d, "patch.diff")).read(), re.M))),
        "needs_to_manifest": "see notes.md (section on the condition needed); summary in DESIGN.md section 5",
        "reverified_by_me": verify.get(d, []),
        "checks_when_received": first.get(d, []),
        "caught_when_received": caught(first.get(d)),
        "checks_as_committed": final.get(d, []),
        "caught_as_committed": caught(final.get(d)),
        "strengthening": strengthened.get(d, ""),
        "what_i_ran": ["tools/seedverify.sh %s %s  (scratch worktree: git apply, go build both modules, unedited suites of both modules, demonstration with and without the change)" % (d[:3], d[4:]),
                       "tools/seedrun.sh seeded/%s/patch.diff %s  (fresh scratch worktree of /repo HEAD + patch, VERIF_REPO=<worktree> ./check %s --tier quick, worktree removed)" % (d, d[:3], d[:3])],
    }
    json.dump(meta, open(os.path.join(root, d, "meta.json"), "w"), indent=1)
    print(d, meta["caught_when_received"], meta["caught_as_committed"])
