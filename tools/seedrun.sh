#!/bin/bash
# seedrun.sh <patch.diff> <check id> [more ids...]
# Applies a seeded change to a scratch worktree of /repo (never to /repo itself), runs the given
# checks against it through VERIF_REPO, prints one line per check, and removes the worktree.
set -u
patch="$1"; shift
wt=$(mktemp -d /tmp/seedrun-XXXXXX)
rmdir "$wt"
git -C /repo worktree add -q --detach "$wt" HEAD || exit 2
cleanup() { git -C /repo worktree remove --force "$wt" >/dev/null 2>&1; rm -rf "$wt"; }
trap cleanup EXIT
if ! git -C "$wt" apply "$patch"; then echo "PATCH-DOES-NOT-APPLY $patch"; exit 2; fi
for id in "$@"; do
  out=$(cd /verif && VERIF_REPO="$wt" ./check "$id" --tier quick 2>&1)
  code=$?
  kind=$(echo "$out" | grep -m1 -o "kind=[a-zA-Z:_-]*" )
  echo "SEEDRUN $(basename $(dirname $patch))/$(basename $patch) check=$id exit=$code $kind $(echo "$out" | grep -c '^VIOLATION') violations"
done
