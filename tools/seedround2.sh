#!/bin/bash
# seedround2.sh <ID>: verify both round-2 changes of a property and run the property's quick check against each
id=$1
for v in A B; do
  [ -f /tmp/seed/$id-out2/$v/patch.diff ] || { echo "NO-PATCH $id-$v"; continue; }
  /verif/tools/seedverify.sh $id $v out2 | sed "s|$id/$v|$id-2$v|"
  /verif/tools/seedrun.sh /tmp/seed/$id-out2/$v/patch.diff $id 2>&1 | sed "s|^SEEDRUN [^ ]*|SEEDRUN $id-2$v|" | cut -c1-200
done
