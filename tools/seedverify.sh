#!/bin/bash
# seedverify.sh <ID> <variant>: re-verify a sub-agent's seeded change in its scratch worktree /tmp/seed/<ID>:
# applies, builds both modules, runs both unedited suites, runs the demonstration with and without the change.
export GOFLAGS=-mod=mod GOPROXY=off GOSUMDB=off GOTOOLCHAIN=local
id=$1; v=$2; sfx=${3:-out}; base=${SEEDBASE:-/tmp/seed}; wt=$base/$id; out=$base/$id-$sfx/$v
cd $wt || exit 2
git checkout -q -- . ; git clean -fdq
git apply $out/patch.diff || { echo "SEEDVERIFY $id/$v patch-does-not-apply"; exit 2; }
build=ok; (go build ./... && cd learn && go build ./...) >/dev/null 2>&1 || build=FAIL
suite=ok
(go test -vet=off -count=1 ./... 2>&1; cd learn && go test -vet=off -count=1 ./... 2>&1) | grep -E '^(FAIL|--- FAIL|panic)' | cut -c1-160 | head -5 > $base/$id-$sfx/$v.suite.txt
[ -s $base/$id-$sfx/$v.suite.txt ] && suite=FAIL
W=$wt $(head -1 $out/demo.sh | grep -q bash && echo bash || echo sh) $out/demo.sh $wt > $base/$id-$sfx/$v.demo-with.txt 2>&1; with=$?
git checkout -q -- . ; git clean -fdq
W=$wt $(head -1 $out/demo.sh | grep -q bash && echo bash || echo sh) $out/demo.sh $wt > $base/$id-$sfx/$v.demo-without.txt 2>&1; without=$?
git checkout -q -- . ; git clean -fdq
echo "SEEDVERIFY $id/$v build=$build suite=$suite demo_with_change_exit=$with demo_without_exit=$without"
