#!/bin/bash
# seedround4.sh <ID>: verify both round-4 changes of a property and run the property's quick check against each
id=$1
for v in A B; do
  [ -f /tmp/seed4/$id-out/$v/patch.diff ] || { echo "NO-PATCH $id-4$v"; continue; }
  SEEDBASE=/tmp/seed4 /verif/tools/seedverify.sh $id $v out | sed "s|$id/$v|$id-4$v|"
  /verif/tools/seedrun.sh /tmp/seed4/$id-out/$v/patch.diff $id 2>&1 | grep SEEDRUN | sed "s|^SEEDRUN [^ ]*|SEEDRUN $id-4$v|" | cut -c1-200
done
