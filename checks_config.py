"""Per-property configuration of the ./check driver: harness package, tests, shard counts, case counts, evidence rule."""

PROPS = {
    "C03": {
        "pkg": "p03",
        "level": "exploration",
        "level_text": "Randomised and partly enumerated search for a counterexample: ~10^5 (quick) / ~10^6 (thorough) damaged programs per run, "
                      "each checked against an executable oracle (no panic, no hang, program xor non-empty errors, token tiling and "
                      "recomputed positions, every error located at an existing position and at the lexeme it quotes). Absence of a "
                      "counterexample is evidence, not proof; totality over all strings cannot be enumerated.",
        "level_note": "Trusts Go's runtime recover to observe panics, a 20 s watchdog for hangs, and the harness's own rune-based "
                      "recomputation of line/column. Inputs are derived from the repository's own programs, so constructs absent from "
                      "them are reached only through the substitution pool.",
        "technique": "property-based testing: token-level mutation of corpus programs + exhaustive prefixes, validity-predicate oracle (rapid)",
        "tests": [
            {"name": "TestProp", "quick": {"shards": 8, "checks": 20000}, "thorough": {"shards": 16, "checks": 250000}},
            {"name": "TestPrefixes", "rapid": False, "quick": {"shards": 8}, "thorough": {"shards": 16}},
        ],
        "rule": "inputs: repository programs (all *.evy and ```evy doc blocks, loaded at run time) under 1-4 token edits "
                "(delete/duplicate/swap/substitute/insert/truncate/raw bytes/splice), random rune prefixes, raw byte insertions, "
                "token soup, and single placed edits (illegal character / undeclared identifier on a known line); plus every rune "
                "prefix of every small repository program (enumerated). Non-trivial = a mutated input that is rejected with >=2 "
                "errors, or contains a func/on header, or is a prefix or placed edit; distinct by input text.",
        "exhaustive_part": "all rune prefixes of every repository program up to 400 bytes (quick) / 3000 bytes (thorough)",
        "assumptions": ["positions are rune-based (the lexer works on []rune(input)); invalid UTF-8 bytes count as one rune each",
                        "a hang is judged by a 20 s watchdog per input (inputs are < 10 KB, normal parse time < 1 ms)"],
    },
}

PROPS["C01"] = {
    "pkg": "p01",
    "level": "exploration",
    "level_text": "Differential search against an independent reference interpreter written from docs/spec.md: ~5*10^4 (quick) / ~10^6 "
                  "(thorough) generated well-typed programs per run, each rendered with randomised legal layout and compared effect by "
                  "effect (print text, tracer order, outcome class) with the real evaluator. No counterexample found is evidence, not proof.",
    "level_note": "Trusts the harness's reading of the specification (model interpreter in harness/m) and its renderer. Regions the documents "
                  "leave open (division by zero, sign of % on negative operands, non-finite results, accumulated vs multiplied range steps) "
                  "are skipped, counted as skipped:unspecified. Number formatting is assumed to be shortest decimal without exponent as in the docs' examples.",
    "technique": "property-based differential testing: type-directed program generator + reference interpreter oracle (rapid)",
    "tests": [
        {"name": "TestProp", "quick": {"shards": 8, "checks": 6000}, "thorough": {"shards": 16, "checks": 60000}},
    ],
    "rule": "cases: generated well-typed programs (declarations, assignments, prints over expression trees of depth 1-5 with every operator on "
            "num/string/bool/array/map/any operands, tracer functions that print when evaluated, user functions, index/slice/dot/group), "
            "rendered with random legal whitespace, redundant and omitted parentheses, number and string spellings, multi-line literals, "
            "comments. Non-trivial = at least two binary operators with a precedence boundary rendered without parentheses, or a tracer "
            "under and/or, or at least two tracer calls; distinct by source text.",
    "assumptions": ["reference interpreter harness/m/interp.go is the statement of the language definition",
                    "print shows numbers in shortest decimal form without exponent"],
}

NOT_APPLICABLE = {}

ENGINES = [
    {"name": "harness", "path": "/verif/harness", "serves_properties": sorted(PROPS.keys()),
     "kind_free_text": "Go module with rapid v1.3.0: generators, mutators, reference models, recording platform; driven by /verif/check"},
]

HOOK_COMMITS = []
