"""Per-property configuration of the ./check driver: harness package, tests, shard counts, case counts, evidence rule."""

PROPS = {
    "C03": {
        "pkg": "p03",
        "level": "exploration",
        "level_text": "Randomised and partly enumerated search for a counterexample: ~10^5 (quick) / ~10^6 (thorough) damaged programs per run, "
                      "each checked against an executable oracle (no panic, no hang, program xor non-empty errors, token tiling and "
                      "recomputed positions, every error located at an existing position and at the lexeme it quotes). Absence of a "
                      "counterexample is evidence, not proof; totality over all strings cannot be enumerated.",
        "level_note": "Trusts Go's runtime recover to observe panics, a 20 s watchdog for hangs, and the harness's own rune-based "
                      "recomputation of line/column. Inputs are derived from the repository's own programs, so constructs absent from "
                      "them are reached only through the substitution pool.",
        "technique": "property-based testing: token-level mutation of corpus programs + exhaustive prefixes, validity-predicate oracle (rapid)",
        "tests": [
            {"name": "TestProp", "quick": {"shards": 8, "checks": 20000}, "thorough": {"shards": 16, "checks": 250000}},
            {"name": "TestPrefixes", "rapid": False, "quick": {"shards": 8}, "thorough": {"shards": 16}},
        ],
        "rule": "inputs: repository programs (all *.evy and ```evy doc blocks, loaded at run time) under 1-4 token edits "
                "(delete/duplicate/swap/substitute/insert/truncate/raw bytes/splice), random rune prefixes, raw byte insertions, "
                "token soup, and single placed edits (illegal character / undeclared identifier on a known line); plus every rune "
                "prefix of every small repository program (enumerated). Non-trivial = a mutated input that is rejected with >=2 "
                "errors, or contains a func/on header, or is a prefix or placed edit; distinct by input text.",
        "exhaustive_part": "all rune prefixes of every repository program up to 400 bytes (quick) / 3000 bytes (thorough)",
        "assumptions": ["positions are rune-based (the lexer works on []rune(input)); invalid UTF-8 bytes count as one rune each",
                        "a hang is judged by a 20 s watchdog per input (inputs are < 10 KB, normal parse time < 1 ms)"],
    },
}

PROPS["C01"] = {
    "pkg": "p01",
    "level": "exploration",
    "level_text": "Differential search against an independent reference interpreter written from docs/spec.md: ~5*10^4 (quick) / ~10^6 "
                  "(thorough) generated well-typed programs per run, each rendered with randomised legal layout and compared effect by "
                  "effect (print text, tracer order, outcome class) with the real evaluator. No counterexample found is evidence, not proof. A second search (TestEquality) compares values that are equal by construction or differ in one place, written at two source sites, for every type to depth 3.",
    "level_note": "Trusts the harness's reading of the specification (model interpreter in harness/m) and its renderer. Regions the documents "
                  "leave open (division by zero, sign of % on negative operands, non-finite results, accumulated vs multiplied range steps) "
                  "are skipped, counted as skipped:unspecified. Number formatting is assumed to be shortest decimal without exponent as in the docs' examples.",
    "technique": "property-based differential testing: type-directed program generator + reference interpreter oracle (rapid)",
    "tests": [
        {"name": "TestProp", "quick": {"shards": 8, "checks": 9000}, "thorough": {"shards": 16, "checks": 60000}},
        {"name": "TestEquality", "quick": {"shards": 4, "checks": 3000}, "thorough": {"shards": 8, "checks": 30000}},
    ],
    "rule": "cases: generated well-typed programs (declarations, assignments, prints over expression trees of depth 1-5 with every operator on "
            "num/string/bool/array/map/any operands, tracer functions that print when evaluated, user functions, index/slice/dot/group), "
            "rendered with random legal whitespace, redundant and omitted parentheses, number and string spellings, multi-line literals, "
            "comments. Non-trivial = at least two binary operators with a precedence boundary rendered without parentheses, or a tracer "
            "under and/or, or at least two tracer calls; distinct by source text.",
    "assumptions": ["reference interpreter harness/m/interp.go is the statement of the language definition",
                    "print shows numbers in shortest decimal form without exponent"],
}

PROPS["C11"] = {
    "pkg": "p11",
    "level": "exploration",
    "level_text": "For each randomly drawn array or string (length 0-7, several element types, non-ASCII code points) the integer index window "
                  "[-n-2, n+2] is swept completely for reads, writes and all pairs of slice bounds (including omitted ones), plus 14 special "
                  "indices (fractions, 2^31, 2^53, +-2^63, 1e300, NaN, +-Inf, -0); each probe is a program whose output and error class are "
                  "predicted by the index/slice law. Exhaustive per container inside the window, sampled over containers.",
    "level_note": "The law is implemented in the reference interpreter (harness/m/interp.go: index, bounds); for |i| >= 2^63 either the "
                  "'not an integer' or the 'out of bounds' panic is accepted because the documents only promise a panic.",
    "technique": "property-based testing with per-container exhaustive index/bounds sweep against the stated law (rapid + reference model)",
    "tests": [
        {"name": "TestProp", "quick": {"shards": 8, "checks": 120}, "thorough": {"shards": 16, "checks": 1500}},
        {"name": "TestHistory", "quick": {"shards": 8, "checks": 2500}, "thorough": {"shards": 16, "checks": 25000}},
        {"name": "TestStringStore", "quick": {"shards": 2, "checks": 300}, "thorough": {"shards": 4, "checks": 3000}},
    ],
    "rule": "cases: one program per (container, probe), and one per history (TestHistory: strings and arrays in variables that are indexed, "
            "sliced, concatenated from slices, re-assigned, stored into and read again, every variable observed with len and 5 indices after every step; "
            "non-trivial = at least two kinds of operation); probes = read c[i], write c[i]=v (with an alias observing), slice c[a:b] followed by "
            "freshness tests (mutating source and slice in turn); index given as literal, arithmetic expression or variable. Non-trivial = "
            "index or a bound in {-n-1,-n,-1,0,n-1,n,n+1}, or a special value, or a non-ASCII string; distinct by source text.",
    "exhaustive_part": "integer window [-n-2, n+2] for reads, writes and all bound pairs, per generated container",
    "assumptions": ["strings are sequences of code points (spec.md#strings)"],
}

PROPS["C12"] = {
    "pkg": "p12",
    "level": "exploration",
    "level_text": "Model-based stateful testing: ~2*10^4 (quick) / ~4*10^5 (thorough) random histories of 5-40 map operations (nested "
                  "iteration bodies acting on the iterated map, aliases, four value types), each compared step by step with an "
                  "insertion-ordered dictionary model: printed map, len, has for every alphabet key after every action, visited keys, panic class.",
    "level_note": "The dictionary model is harness/m (MapV: key slice + Go map, iteration over a snapshot of the keys skipping deleted ones). "
                  "Histories that end in the documented missing-key panic are compared up to the panic.",
    "technique": "model-based stateful property testing against an insertion-ordered dictionary model (rapid)",
    "tests": [
        {"name": "TestProp", "quick": {"shards": 8, "checks": 4000}, "thorough": {"shards": 16, "checks": 25000}},
    ],
    "rule": "cases: histories over maps m1, m2 (alias of m1 in half the cases), m3 with keys {a,b,c,d,'x y',for}: literal (re)construction, "
            "m[k]=v, m.k=v, del (also of the key being visited), guarded and unguarded lookup, has, len, ==/!= against maps and literals, "
            "for-range with bodies of up to 3 nested actions on the same map and break. Non-trivial = delete followed by re-insert/overwrite "
            "of that key, or a mutation of the map being iterated, or an action through the alias; distinct by source text.",
    "assumptions": ["map printing shows key:value pairs in insertion order as in the docs' examples"],
}

PROPS["C09"] = {
    "pkg": "p09",
    "level": "exploration",
    "level_text": "Generated alias histories (~2.4*10^4 quick / ~5*10^5 thorough): 3-15 steps that create aliases by every route the language "
                  "offers and then update through one name, with all live variables plus err/errmsg printed after every step and compared "
                  "with the reference interpreter (copy for basic values, reference for composites also inside any, fresh containers for "
                  "slice/concatenation/repetition with deep copy for repetition).",
    "level_note": "Oracle = reference interpreter harness/m, where basic values are Go values (cannot alias) and composites are pointers. "
                  "Values stored into any-typed slots of existing containers are excluded (cyclic values crash the host, open finding).",
    "technique": "property-based differential testing over generated alias/update/observe sequences (rapid + reference interpreter)",
    "tests": [
        {"name": "TestProp", "quick": {"shards": 8, "checks": 12000}, "thorough": {"shards": 16, "checks": 100000}},
    ],
    "rule": "cases: programs over variables of 13 types (num,string,bool,[]num,[][]num,[]bool,[]string,{}num,{}bool,{}string,{}[]num,any,[]any); "
            "alias creation by :=, typed declaration + =, =, array/map literal containing a variable, element/field store, element read, "
            "identity function (parameter and return), variadic pack, slice/+/*, into any, loop variable, and err/errmsg captured by six "
            "routes; updates by rebinding, index store, field store, del, inside a callee, str2num/str2bool success and failure, "
            "explicit err/errmsg assignment. Non-trivial = at least one alias-making step and one update step; distinct by source text.",
    "assumptions": [],
}

PROPS["C10"] = {
    "pkg": "p10",
    "level": "exploration",
    "level_text": "Differential search: ~2.4*10^4 (quick) / ~5*10^5 (thorough) generated programs that are traces of their own control flow "
                  "(every block prints a marker on entry and its variables on exit, loops print their variable), with random nestings of "
                  "if/else-if/else, while, the four for forms and function calls, shadowing, break, early return, recursion and mutual "
                  "recursion, compared line by line with the reference interpreter.",
    "level_note": "Range arithmetic is asserted only where repeated addition and multiplication agree exactly; step 0 must give the "
                  "documented panic. Programs whose reference run exceeds its step or size budget are skipped (counted as skipped:fuel).",
    "technique": "property-based differential testing of generated control-flow trace programs against a reference interpreter (rapid)",
    "tests": [
        {"name": "TestProp", "quick": {"shards": 8, "checks": 6000}, "thorough": {"shards": 16, "checks": 30000}},
    ],
    "rule": "cases: programs with block depth 2-4; declarations may shadow a variable of an enclosing block (possibly with another type, "
            "possibly after the outer one was used in the same block); break under if inside loops; return from nested blocks; numeric "
            "ranges from {plain, negative step, fractional, empty, reversed, zero step}; recursive and mutually recursive functions "
            "called before their definition. Non-trivial = shadowing, or an early return, or a break, or >= 2 kinds of numeric range; "
            "distinct by source text.",
    "assumptions": [],
}

PROPS["C14"] = {
    "pkg": "p14",
    "level": "exploration",
    "level_text": "For each generated program (loops, calls, recursion, tests, optional key handler; a quarter of them endless) the "
                  "uninterrupted run is checked for yield density (a Yield between any two loop-iteration/call markers, marker count as "
                  "predicted by the reference interpreter), and then the stop flag is raised inside yield k for every k up to 400 yields "
                  "(sampled 200 points above, 40 points for endless programs): the run must end with ErrStopped, perform no further effect "
                  "(only the test summary may follow), yield at most once more, leave a prefix of the uninterrupted effects, and a later "
                  "HandleEvent must report 'stopped' without effects. The same two checks are made inside the delivery of an event (TestHandlers: density and every stop point of the handler run, endless handlers included), and the summary printed after a stop must count exactly the tests that had run (TestSummary).",
    "level_note": "The yielder is the harness's own (rec.Yielder) and raises Evaluator.Stopped from inside Yield, as the browser platform "
                  "does. 'Keeps running after stop' is detected by a budget of 10000 further yields/effects, not by a timer. pkg/wasm "
                  "itself cannot be built here; the property is observed at the Evaluator API.",
    "technique": "property-based testing with exhaustive stop-point enumeration per generated program (rapid, recording yielder)",
    "tests": [
        {"name": "TestProp", "quick": {"shards": 8, "checks": 300}, "thorough": {"shards": 16, "checks": 4000}},
        {"name": "TestHandlers", "quick": {"shards": 4, "checks": 200}, "thorough": {"shards": 8, "checks": 2500}},
        {"name": "TestSummary", "quick": {"shards": 2, "checks": 150}, "thorough": {"shards": 4, "checks": 1500}},
    ],
    "rule": "cases: (program, stop point k). Programs come from the type-directed generator with loop/call markers; endless ones end in "
            "'while true' or 'for range 1e300'. Non-trivial = the program contains at least one loop or call marker (so a stop must unwind "
            "out of a loop or callee) or is endless; distinct by (program hash, k).",
    "exhaustive_part": "every stop point k in [1, Y] for programs with Y <= 400 yields (counted in extra.programs_with_every_stop_point)",
    "assumptions": ["the platform raises the stop flag only from inside Yield (single-threaded WASM model)"],
}

PROPS["C15"] = {
    "pkg": "p15",
    "level": "exploration",
    "level_text": "Model-based stateful testing of the event loop contract: ~2.4*10^4 (quick) / ~5*10^5 (thorough) generated programs with "
                  "globals, top-level code and any subset of the six handlers in every accepted signature, each driven by a history of 0-30 "
                  "events with generated payloads. After Eval and after every HandleEvent the cumulative platform trace and the returned "
                  "error class are compared with the reference interpreter (fresh local scope per delivery, shared globals), and the final "
                  "trace with a differential twin in which every handler is a procedure and the history a sequence of calls.",
    "level_note": "Events are only delivered for handlers that exist and with payloads of the documented Go types (float64, string), as "
                  "the platforms do. Delivery stops at the first handler that ends in a run-time panic.",
    "technique": "model-based stateful property testing + differential twin (handlers rewritten as procedures) (rapid)",
    "tests": [
        {"name": "TestProp", "quick": {"shards": 8, "checks": 6000}, "thorough": {"shards": 16, "checks": 30000}},
    ],
    "rule": "cases: (program, event history). Handler signatures: all parameters named / some replaced by _ / none; handler bodies read and "
            "update globals, declare locals, call functions, return early. Non-trivial = at least two different events delivered and "
            "at least two deliveries; distinct by (source text, history).",
    "assumptions": [],
}

PROPS["C02"] = {
    "pkg": "p02",
    "needs_evy": True,
    "level": "exploration",
    "level_text": "Three generated domains per run: (1) well-typed model programs with every statement form, risky indices, type assertions, "
                  "tests, shadowing, whose output, typeof of every global and panic class are predicted by the reference interpreter; "
                  "(2) token-level mutants of repository programs that the parser still accepts (measured acceptance ~19%), run with fuel: "
                  "the run must end by completion, a documented panic, exit, failed test or stop - never an internal error, a Go panic "
                  "or an unclassified error; (3) every built-in (60 signatures) with arguments from boundary classes (NaN, +-Inf, -0, "
                  "2^31, 1e300, empty/non-ASCII/format-verb strings, empty and nested composites, any-wrapped values): allowed outcome and "
                  "typeof of the result equal to the declared return type. (4) borderline programs: typed contexts and selector-chain stores filled with expressions of the same, a related or an unrelated type (about a fifth is accepted): what the parser accepts must run to a documented outcome.",
    "level_note": "Go panics are observed with recover; two host crashes that recover cannot survive (Go stack overflow on cyclic values and "
                  "on unbounded recursion) are open findings whose reproducers run through the real evy binary in a subprocess; the "
                  "in-process search avoids them by construction (fuel bounds recursion depth, generators do not build cycles).",
    "technique": "property-based testing: validity-predicate oracle over accepted mutants and boundary-class built-in calls + reference-model differential (rapid)",
    "tests": [
        {"name": "TestModel", "quick": {"shards": 4, "checks": 3000}, "thorough": {"shards": 6, "checks": 40000}},
        {"name": "TestMutants", "quick": {"shards": 6, "checks": 15000}, "thorough": {"shards": 6, "checks": 300000}},
        {"name": "TestBuiltins", "quick": {"shards": 4, "checks": 10000}, "thorough": {"shards": 4, "checks": 200000}},
        {"name": "TestBorderline", "quick": {"shards": 4, "checks": 4000}, "thorough": {"shards": 6, "checks": 60000}},
    ],
    "rule": "cases: model programs / corpus mutants (1-3 token edits, generated input lines) / single built-in calls. Non-trivial = model "
            "program with an any-wrap, a typed empty literal or a panicking outcome; mutant that differs from its seed and is accepted; "
            "built-in call with at least one argument (distinct by built-in and argument class tuple); borderline program (typed contexts filled "
            "with same/related/unrelated-typed expressions, stores through selector chains) that the parser accepts. Distinct by source text resp. class tuple.",
    "assumptions": ["fuel: 100000 yields / 20000 effects per run; runs that exhaust it count as 'stopped'"],
}

PROPS["C06"] = {
    "pkg": "p06",
    "needs_evy": True,
    "level": "exploration",
    "level_text": "Round-trip search: for ~4*10^4 (quick) / ~8*10^5 (thorough) accepted source texts the formatter's output is re-lexed "
                  "(the sequence of non-whitespace tokens incl. comments must be unchanged: numbers by value, strings by decoded value), "
                  "re-parsed (must be accepted, same syntax tree modulo blank-line statements) and run next to the source on identical "
                  "inputs and random seed (identical effects and outcome).",
    "level_note": "Sources: model programs rendered with adversarial layout (comments after every line kind and inside multi-line "
                  "literals, odd indentation, tight/spaced operators, redundant parentheses, number/string spellings), the repository's "
                  "programs, and whitespace-only re-layouts of both. Program.String() is used to compare trees.",
    "technique": "property-based round-trip testing of the formatter (token round-trip, re-parse, same tree, differential run) (rapid)",
    "tests": [
        {"name": "TestProp", "quick": {"shards": 8, "checks": 5000}, "thorough": {"shards": 16, "checks": 50000}},
    ],
    "rule": "cases: accepted source texts (model / corpus / re-layout). Non-trivial = the text contains a comment or a multi-line literal "
            "and is changed by formatting; distinct by source text.",
    "assumptions": ["source is valid UTF-8 (spec: Evy source code is UTF-8 encoded)"],
}

PROPS["C07"] = {
    "pkg": "p07",
    "needs_evy": True,
    "level": "exploration",
    "level_text": "For ~4*10^4 (quick) / ~8*10^5 (thorough) accepted programs: F(F(s)) == F(s); F(s') == F(s) for a generated variant s' that "
                  "differs only in optional horizontal whitespace and blank-line run lengths; F(s) obeys the shape rules (4 spaces per "
                  "block level computed from the token stream, no trailing whitespace, no two consecutive blank lines, exactly one final "
                  "newline); and on a sample the real `evy fmt -c` exits 0 on F(s) and non-zero on s != F(s), from stdin and from a file it "
                  "must not modify.",
    "level_note": "Indentation inside multi-line literals is only required to be whole groups of four spaces (the statement fixes block "
                  "levels only). Sources ending in blank lines are trimmed while finding F17 is open (counted under excluded_by_construction).",
    "technique": "property-based metamorphic testing of the formatter (idempotence, whitespace-variant invariance, shape predicate, CLI sample) (rapid)",
    "tests": [
        {"name": "TestProp", "quick": {"shards": 8, "checks": 5000}, "thorough": {"shards": 16, "checks": 50000}},
    ],
    "rule": "cases: (source, whitespace-only variant) pairs from model programs with adversarial layout and from repository programs. "
            "Non-trivial = formatting changes the text, or it has a multi-line literal, or the variant differs from the source; distinct "
            "by (source, variant).",
    "assumptions": [],
}

PROPS["C08"] = {
    "pkg": "p08",
    "needs_evy": True,
    "level": "exploration",
    "level_text": "Repetition oracle: each of ~1.6*10^4 (quick) / ~1.3*10^5 (thorough) cases is parsed, formatted and run 12 (quick) / 40 "
                  "(thorough) times in one process - Go re-randomises map iteration on every range, so repetition is the adversarial "
                  "schedule - and Errors.Error(), Program.Format(), the platform trace (incl. graphics calls, rand with a fixed source, "
                  "read, key events) and the final outcome text must be byte-identical; a sample is also run three times as fresh "
                  "`evy run --rand-seed 7 --svg-out -` processes (stdout, stderr, exit status).",
    "level_note": "With k independent entries in a map-backed collection a fixed order survives R repetitions with probability "
                  "(1/k!)^(R-1) if iteration were really order-dependent, e.g. < 10^-8 for k=3, R=12.",
    "technique": "property-based testing with a repetition (run-twice) oracle biased to map-iteration sites (rapid)",
    "tests": [
        {"name": "TestProp", "quick": {"shards": 8, "checks": 1500}, "thorough": {"shards": 16, "checks": 8000}},
    ],
    "rule": "cases: programs built around the places evy keeps things in Go maps (map literals with 3-8 pairs whose values are tracer "
            "calls, variables, literals and empty literals from type-compatible families; mixed array literals; 2-6 unused variables in "
            "one scope; font with several valid/invalid properties; several handlers with rand/read), generated model programs, "
            "accepted and rejected token mutants of repository programs, repository programs. Non-trivial = the case has such a site "
            "or is rejected with >= 2 errors; distinct by source text.",
    "assumptions": ["runs that hit the harness's fuel/effect budget are compared only up to 'budget'"],
}

PROPS["C05"] = {
    "pkg": "p05",
    "needs_evy": True,
    "level": "exploration",
    "level_text": "For ~4*10^4 (quick) / ~5*10^5 (thorough) generated valid programs (with output, drawing, input and sleep effects textually "
                  "first) one rule-breaking edit is placed by construction - 16 rule families, ~60 concrete edits - at a random position of a "
                  "random block (top level, nested blocks, function bodies, handler bodies). The parser must return located errors, "
                  "Evaluator.Run must return them with zero platform calls and zero yields, and on a sample the real `evy run` must exit "
                  "non-zero with empty stdout, non-empty stderr and no SVG file created.",
    "level_note": "Each edit is chosen so that it breaks the rule wherever it is placed (or is only placed where it does: break outside "
                  "loops, value returns in procedures/handlers, definitions at top level).",
    "technique": "property-based testing with constructive rule-breaking edits of generated valid programs (rapid)",
    "tests": [
        {"name": "TestProp", "quick": {"shards": 8, "checks": 5000}, "thorough": {"shards": 16, "checks": 30000}},
    ],
    "rule": "cases: (valid program, rule, position). Every case is non-trivial by construction: effects precede the edit, so 'nothing ran' "
            "is never vacuous; distinct by source text. Histogram rule x position class in coverage.classes.",
    "assumptions": [],
}

PROPS["C04"] = {
    "pkg": "p04",
    "level": "exploration",
    "level_text": "The typing matrix itself is enumerated: all 28x28 pairs of types up to nesting depth 2 crossed with ~20 kinds of value "
                  "(variable, grouped variable, concatenation/slice/repetition/element/field/call result over variables, literal with an "
                  "embedded variable, constant literal, grouped/concatenated/sliced/repeated constant expressions, six (nested) empty "
                  "literals) and six assignment-like contexts (typed declaration + assignment, parameter, variadic parameter, return, "
                  "element store, field store): ~5.7*10^4 cells, each a tiny program whose acceptance and resulting typeof are predicted by "
                  "a transcription of spec.md's assignability, operator-table and inference rules. Plus the operator table over depth-1 "
                  "types (13 operators, variables and literals), unary operators, conditions, range operands, index/slice/dot/assertion, "
                  "~80 inference cells, sampled depth-3 pairs and the permutation law (the inferred type of a literal does not depend on "
                  "the order of its elements).",
    "level_note": "Exhaustive for nesting depth <= 2 (coverage.exhaustive_part); depth 3 and permutations are sampled by rapid. The rules "
                  "are the harness's reading of docs/spec.md (functions isAccepted, convertible, shapeMatches, binaryRule in harness/p04). "
                  "typeof [] is not asserted on its own (prose and examples of the spec disagree).",
    "technique": "exhaustive enumeration of the typing matrix up to depth 2 + property-based sampling beyond, against spec-transcribed rules (rapid)",
    "tests": [
        {"name": "TestMatrix", "rapid": False, "quick": {"shards": 8}, "thorough": {"shards": 16}},
        {"name": "TestSampled", "quick": {"shards": 8, "checks": 4000}, "thorough": {"shards": 16, "checks": 80000}},
    ],
    "rule": "cases: matrix cells (context, target type, value kind, value type). Non-trivial = every cell whose deciding rule is not "
            "'identical types'; distinct by cell coordinates.",
    "exhaustive_part": "all cells for types up to nesting depth 2 (TestMatrix)",
    "assumptions": [],
}

PROPS["C13"] = {
    "pkg": "p13",
    "needs_evy": True,
    "level": "exploration",
    "level_text": "Probe programs for every non-graphics built-in with arguments from value classes that include each domain boundary "
                  "(~8*10^4 quick / ~10^6 thorough probes): the result is compared inside Evy with a value the harness computes from the "
                  "function's documentation with its own code-point based implementation (upper, lower, index, startswith, endswith, trim, "
                  "replace, split, join, len), or with laws (join inverts split; err set => result 0; rand in [0,n) and integral; rand1 in "
                  "[0,1); sqrt of exact squares; round half away from zero; min/max in both argument orders), the err/errmsg protocol after "
                  "every str2num/str2bool call incl. reset after a previous failure, sprint/print/sprintf/printf/repr/typeof text, verbs "
                  "with width/precision, exit status and panic message through the real evy binary, test counts and summary with and "
                  "without fail-fast; plus every documented example with an output block (57 run).",
    "level_note": "Where builtins.md is silent or contradicts itself the probe does not assert: empty 'old' in replace, rand on (0,1), "
                  "number spellings like 1e5/0x10/inf in str2num (only 'err => 0' is asserted), examples involving cls or rand.",
    "technique": "property-based testing of built-ins against documentation-derived oracles and algebraic laws + enumeration of documented examples (rapid)",
    "tests": [
        {"name": "TestProp", "quick": {"shards": 8, "checks": 20000}, "thorough": {"shards": 16, "checks": 60000}},
        {"name": "TestDocExamples", "rapid": False, "quick": {"shards": 1}, "thorough": {"shards": 1}},
    ],
    "rule": "cases: (built-in, argument class tuple) probes. Every probe is non-trivial (it asserts a documented result); distinct by "
            "(built-in, classes, source text).",
    "exhaustive_part": "all documented examples with an evy:output partner (TestDocExamples)",
    "assumptions": ["number text is shortest decimal form without exponent (as print shows it in the documentation)"],
}

PROPS["C16"] = {
    "pkg": "p16",
    "level": "translation_validation",
    "level_text": "Per-program translation validation by differential execution: ~3*10^4 (quick) / ~6*10^5 (thorough) generated programs "
                  "inside the compiler's supported subset (inferred declarations, assignments to variables and array elements, num/string/"
                  "array operators, comparisons, unary, index, slice, array and map literals, if/else-if/else, while, the four for forms, "
                  "break, block locals, shadowing) are run on the evaluator and on compiler+VM; every global of the evaluator must have "
                  "the same structural value on the VM (hook VerifGlobals on both sides), run-time errors must correspond (division by "
                  "zero may fail on the VM alone). A quarter of the programs get exactly one construct from outside the subset (10 kinds): "
                  "Compile must then return an error. Two further generators target what random programs seldom reach: alias histories (copies, derived arrays, in-place updates) and control-flow skeletons (nested loops, if/else chains on the counters, breaks at chosen places, the path folded into a global). A VM run is stopped by an instruction budget (hook), not by a clock.",
    "level_note": "The VM has no instruction budget; a VM run is abandoned after 3 s and reported as vm-hang (the evaluator run is "
                  "bounded by fuel first). Two open VM findings (map store order, loop variable slot) are avoided by construction and "
                  "counted in excluded_by_construction; their reproducers run on every check.",
    "technique": "differential property-based testing of compiler+VM against the evaluator on generated programs, final globals compared structurally (rapid)",
    "tests": [
        {"name": "TestProp", "quick": {"shards": 8, "checks": 4000}, "thorough": {"shards": 16, "checks": 40000}},
        {"name": "TestAlias", "quick": {"shards": 8, "checks": 2500}, "thorough": {"shards": 16, "checks": 25000}},
        {"name": "TestControl", "quick": {"shards": 8, "checks": 2500}, "thorough": {"shards": 16, "checks": 25000}},
    ],
    "rule": "cases: generated programs; programs = cases whose globals were compared. Non-trivial = compared program with a loop and a "
            "composite value, or an unsupported construct that was rejected, or a run-time error both sides agree on; for the alias "
            "histories (TestAlias): compared program in which a value derived from another was later updated in place; distinct by source text.",
    "assumptions": ["hooks (build tag verif): Evaluator.VerifGlobals, VM.VerifGlobals(Compiler), read-only"],
}

PROPS["C17"] = {
    "pkg": "p17",
    "level": "exploration",
    "level_text": "Every bytecode program compiled from ~2*10^4 (quick) / ~5*10^5 (thorough) generated programs is verified by an "
                  "independent bytecode verifier written for the harness: linear decode into known instructions ending exactly at the "
                  "end, constant/global/local operands in range and every constant referenced, jump targets on instruction boundaries, "
                  "and abstract interpretation of the operand-stack height over the control-flow graph (one height per instruction on all "
                  "paths, never negative, zero at exit, within StackSize). The program is then executed inside recover (no Go panic; "
                  "stack pointer back at LocalCount). Six oversized programs (more than 65536 constants, loop bodies beyond 65535 bytes, "
                  "huge literals) are compiled, and a model-based state machine over SymbolTable Push/Pop/Define/Resolve checks that "
                  "live symbols never share a slot, Resolve finds the innermost definition and enough local slots are reserved.",
    "level_note": "Stack effects per opcode are taken from the opcode descriptions (harness/p17 effects table), not from vm.go. The range "
                  "opcodes are modelled together with the conditional jump that must follow them. Loop variables that shadow an outer "
                  "variable are excluded while finding F37 (C16) is open.",
    "technique": "property-based testing with an independent bytecode verifier (abstract stack-height interpretation) + model-based symbol table state machine (rapid)",
    "tests": [
        {"name": "TestProp", "quick": {"shards": 8, "checks": 5000}, "thorough": {"shards": 16, "checks": 30000}},
        {"name": "TestLarge", "rapid": False, "quick": {"shards": 1}, "thorough": {"shards": 1}},
        {"name": "TestSizes", "rapid": False, "quick": {"shards": 8}, "thorough": {"shards": 8}},
        {"name": "TestSymbolTable", "quick": {"shards": 4, "checks": 5000}, "thorough": {"shards": 8, "checks": 50000}},
    ],
    "rule": "cases: generated programs of the compiler's subset (block depth up to 4, risky indices), oversized programs, symbol-table "
            "histories of 1-40 operations. Non-trivial = verified program with nested loops or a break; oversized program beyond the "
            "16-bit limit; history with >= 2 simultaneously live locals. Distinct by source text / history.",
    "assumptions": ["hooks (build tag verif): VM.VerifSP, SymbolTable.VerifState, read-only"],
}

PROPS["C19"] = {
    "pkg": "p19",
    "needs_evy": True,
    "level": "exploration",
    "level_text": "~1.6*10^4 (quick) / ~3*10^5 (thorough) generated histories of 0-40 graphics calls (all shapes and all pen-style calls, "
                  "degenerate numbers, markup-laden and empty strings) are drawn through the real SVG platform; the document is parsed "
                  "back with a strict XML parser (single svg root in the SVG namespace, 0 0 1000 1000 viewBox), inherited presentation "
                  "attributes are resolved root -> g -> element into a flat list, and that list is compared shape by shape with a pen model "
                  "kept by the harness: kind, geometry (x10, y flipped, tolerance 1e-9), stroke, fill, width, dash, line cap, text content "
                  "and font properties in effect at the time of the call. A sample is also produced with `evy run --svg-out` and must be "
                  "byte-identical; degenerate gridn spacings are probed through the binary under a time and memory limit.",
    "level_note": "Initial pen properties are not guessed: a shape drawn with an untouched property must resolve to what a baseline "
                  "shape drawn before any style call resolves to. All wrong properties of a history are reported, so the five open "
                  "findings (F42-F46) do not mask other differences in the same history.",
    "technique": "model-based property testing: pen-state model vs SVG parsed back and flattened (rapid, encoding/xml strict)",
    "tests": [
        {"name": "TestProp", "quick": {"shards": 8, "checks": 4000}, "thorough": {"shards": 16, "checks": 20000}},
        {"name": "TestGridnDegenerate", "rapid": False, "quick": {"shards": 1}, "thorough": {"shards": 1}},
    ],
    "rule": "cases: histories of graphics calls. Non-trivial = at least two style changes and at least two shapes; distinct by the "
            "sequence of command kinds and the rendered source.",
    "assumptions": ["gridn line width is not asserted (documentation gives 0.1/0.2 units, SVG default applies)"],
}

PROPS["C20"] = {
    "pkg": "p20",
    "level": "exploration",
    "level_text": "Sealing: for each generated answer (short letter lists, arbitrary Unicode, arbitrary bytes, up to 8 KB) and each of three "
                  "fresh key pairs (2x1024, 1x2048 bit) Decrypt(Encrypt(a)) == a, and the sealed value is attacked exhaustively: every "
                  "single byte of the decoded envelope xor three masks, every truncation length, appended bytes, edits and deletions of "
                  "base64 characters, and a foreign private key; each must be rejected or still yield exactly a (never another string, "
                  "never a Go panic). Verification: generated single/multiple-choice questions with 2-6 evy-program choices whose outputs "
                  "are drawn from a small pool so that any subset can match; the marked set is exact, has one extra, one missing, a letter "
                  "beyond the choices, or is arbitrary; Verify() == nil iff the marked positions are exactly the matching choices, computed "
                  "by the harness by running the programs itself; half of the questions go through Seal + private key.",
    "level_note": "RSA key generation and OAEP are not functions of VERIF_SEED: a failing case stores keys, ciphertext and the tampered "
                  "value in its replay file. Per answer the tampering sweep is exhaustive over byte positions and truncation lengths.",
    "technique": "property-based round-trip and exhaustive single-fault tampering of sealed values + model-based check of answer verification (rapid)",
    "tests": [
        {"name": "TestCrypto", "quick": {"shards": 8, "checks": 12}, "thorough": {"shards": 16, "checks": 150}},
        {"name": "TestQuestions", "quick": {"shards": 8, "checks": 1500}, "thorough": {"shards": 16, "checks": 15000}},
    ],
    "rule": "cases: (answer, key) pairs with their complete tampering sweep (counted in extra.tampered_values_tried), and generated "
            "questions. Non-trivial = every crypto case; a question where some but not all choices match; distinct by answer/key "
            "resp. question text.",
    "exhaustive_part": "per sealed value: every byte position x 3 masks and every truncation length",
    "assumptions": ["choices are fenced evy blocks, the question is a plain fenced output block (one of the documented question forms)"],
}

PROPS["C18"] = {
    "pkg": "p18",
    "needs_evy": True,
    "level": "fault_enumeration",
    "level_text": "For each generated source file (model programs with adversarial layout, repository programs, already formatted text, "
                  "texts that do not parse, empty, one-byte, no final newline, 200 KB) and permission mode (0644, 0600, 0755, 0664, 0640, "
                  "0444) the real `evy fmt -w FILE` first runs un-faulted under strace to record its file-system calls; then every one "
                  "of those calls (open, read, create, write, chmod, close, rename) is, one run each, (a) hit by SIGKILL on entry and "
                  "(b) made to fail with ENOSPC, EIO and EACCES (strace -e inject). After every run the file must hold exactly its "
                  "original or exactly the formatted text - the original unless the rename completed -, keep its permission bits, and "
                  "a failure of a call the formatter depends on must give a non-zero exit status. `evy fmt -c` (file and stdin) must "
                  "exit 0 exactly for already formatted input and leave bytes, mode and mtime alone; a file that does not parse must be "
                  "left untouched with a non-zero status and a message naming it. Invocations with 2-4 file arguments of mixed kinds are checked without fault injection (TestMulti).",
    "level_note": "Fault points are the system-call boundaries of one process (where file-system state can change); power loss (no "
                  "fsync) is outside the statement. Short writes are not injected: strace's retval injection does not perform the partial "
                  "write, which no real kernel does. Enumeration is complete over the calls that touch the file's directory, per file.",
    "technique": "property-based generation of files x exhaustive syscall-level fault and kill injection with strace, oracle on file bytes/mode/exit status (rapid)",
    "tests": [
        {"name": "TestProp", "quick": {"shards": 8, "checks": 4}, "thorough": {"shards": 16, "checks": 30}},
        {"name": "TestMulti", "quick": {"shards": 8, "checks": 300}, "thorough": {"shards": 8, "checks": 5000}},
    ],
    "rule": "cases: (file content, mode), and invocations with 2-4 file arguments of mixed kinds (TestMulti: -c exits 0 exactly if all are formatted, "
            "-w leaves each file original or formatted); per single-file case all kill points and error injections are enumerated (counts in coverage.extra: "
            "strace_runs, kill_points, injected_errors, faults_before_rename_completed). Non-trivial = the file parses (so -w really "
            "rewrites it under faults); distinct by (mode, content).",
    "exhaustive_part": "every file-system call of the un-faulted run that touches the file's directory x {SIGKILL, ENOSPC, EIO, EACCES}",
    "assumptions": ["strace (ptrace) works in the sandbox; runs as root, so EACCES only occurs when injected"],
}

NOT_APPLICABLE = {}

ENGINES = [
    {"name": "harness", "path": "/verif/harness", "serves_properties": sorted(PROPS.keys()),
     "kind_free_text": "Go module with rapid v1.3.0: generators, mutators, reference models, recording platform; driven by /verif/check"},
]

HOOK_COMMITS = ["764b122", "d65b1bc"]
