"""Per-property configuration of the ./check driver: harness package, tests, shard counts, case counts, evidence rule."""

PROPS = {
    "C03": {
        "pkg": "p03",
        "level": "exploration",
        "tests": [
            {"name": "TestProp", "quick": {"shards": 8, "checks": 20000}, "thorough": {"shards": 16, "checks": 250000}},
            {"name": "TestPrefixes", "rapid": False, "quick": {"shards": 8}, "thorough": {"shards": 16}},
        ],
        "rule": "inputs: repository programs (all *.evy and ```evy doc blocks, loaded at run time) under 1-4 token edits "
                "(delete/duplicate/swap/substitute/insert/truncate/raw bytes/splice), random rune prefixes, raw byte insertions, "
                "token soup, and single placed edits (illegal character / undeclared identifier on a known line); plus every rune "
                "prefix of every small repository program (enumerated). Non-trivial = a mutated input that is rejected with >=2 "
                "errors, or contains a func/on header, or is a prefix or placed edit; distinct by input text.",
        "exhaustive_part": "all rune prefixes of every repository program up to 400 bytes (quick) / 3000 bytes (thorough)",
        "assumptions": ["positions are rune-based (the lexer works on []rune(input)); invalid UTF-8 bytes count as one rune each",
                        "a hang is judged by a 20 s watchdog per input (inputs are < 10 KB, normal parse time < 1 ms)"],
    },
}
