// Package p09 decides C09: basic values are copied, composites are shared.
package p09

import (
	"sort"
	"strconv"
	"strings"
	"testing"

	"pgregory.net/rapid"
	"verif/harness/eng"
	"verif/harness/gen"
	"verif/harness/h"
	"verif/harness/m"
)

var (
	tNums  = m.ArrOf(m.TNum)
	tNums2 = m.ArrOf(tNums)
	tBools = m.ArrOf(m.TBool)
	tStrs  = m.ArrOf(m.TStr)
	tMapN  = m.MapOf(m.TNum)
	tMapB  = m.MapOf(m.TBool)
	tMapS  = m.MapOf(m.TStr)
	tMapA  = m.MapOf(tNums)
	tAnys  = m.ArrOf(m.TAny)
	tMaps  = m.ArrOf(tMapN)
	pool   = []*m.Type{m.TNum, m.TStr, m.TBool, tNums, tNums2, tBools, tStrs, tMapN, tMapB, tMapS, tMapA, m.TAny, tAnys, tMaps, tMaps}
)

type vinfo struct {
	name string
	ty   *m.Type
}

type st struct {
	t     *rapid.T
	vars  []vinfo
	n     int
	out   []m.Stmt
	made  map[string]bool // how aliases were made
	upd   map[string]bool // how updates were made
	funcs map[string]*m.Func
	lit   int
}

func (s *st) fresh() string { s.n++; return "v" + strconv.Itoa(s.n) }

func (s *st) of(ty *m.Type) []vinfo {
	var out []vinfo
	for _, v := range s.vars {
		if v.ty.Eq(ty) {
			out = append(out, v)
		}
	}
	return out
}

func (s *st) pick(ty *m.Type) (*m.Var, bool) {
	vs := s.of(ty)
	if len(vs) == 0 {
		return nil, false
	}
	v := vs[rapid.IntRange(0, len(vs)-1).Draw(s.t, "var")]
	return &m.Var{Name: v.name, Ty: v.ty}, true
}

func (s *st) anyVar() *m.Var {
	v := s.vars[rapid.IntRange(0, len(s.vars)-1).Draw(s.t, "anyvar")]
	return &m.Var{Name: v.name, Ty: v.ty}
}

// newLit returns a fresh literal of type ty with recognisable, always different content.
func (s *st) newLit(ty *m.Type) m.Expr {
	s.lit++
	n := float64(s.lit)
	switch ty.K {
	case m.Num:
		return m.NumLit(100 + n)
	case m.Str:
		return m.StrLit("s" + strconv.Itoa(s.lit))
	case m.Bool:
		return m.BoolLit(s.lit%2 == 0)
	case m.Any:
		if s.lit%2 == 0 {
			return m.AsAny(m.NumLit(200 + n))
		}
		return m.AsAny(&m.ArrLit{Ty: tNums, Elems: []m.Expr{m.NumLit(300 + n)}})
	case m.Arr:
		if ty.Sub.K == m.Any {
			// invariant for every []any value of a history: element 0 holds a non-empty []num, element 1 a {}num with key a
			return &m.ArrLit{Ty: ty, Elems: []m.Expr{
				m.AsAny(&m.ArrLit{Ty: tNums, Elems: []m.Expr{m.NumLit(n), m.NumLit(n + 0.5)}}),
				m.AsAny(&m.MapLit{Ty: tMapN, Keys: []string{"a"}, Vals: []m.Expr{m.NumLit(n + 1000)}}),
				m.AsAny(m.StrLit("z"))}}
		}
		return &m.ArrLit{Ty: ty, Elems: []m.Expr{s.newLit(ty.Sub), s.newLit(ty.Sub)}}
	case m.Map:
		return &m.MapLit{Ty: ty, Keys: []string{"a", "b"}, Vals: []m.Expr{s.newLit(ty.Sub), s.newLit(ty.Sub)}}
	}
	panic("newLit")
}

// need returns a variable of the type, declaring one when the history has none yet
func (s *st) need(ty *m.Type) (*m.Var, bool) {
	if v, ok := s.pick(ty); ok {
		return v, true
	}
	n := s.fresh()
	if ty.K == m.Any {
		s.out = append(s.out, &m.Decl{Name: n, Ty: ty, Typed: true})
		s.vars = append(s.vars, vinfo{n, ty})
	} else {
		s.declare(n, ty, s.newLit(ty))
	}
	return &m.Var{Name: n, Ty: ty}, true
}

func (s *st) declare(name string, ty *m.Type, init m.Expr) {
	s.out = append(s.out, &m.Decl{Name: name, Ty: ty, Init: init})
	s.vars = append(s.vars, vinfo{name, ty})
}

func (s *st) observe(label string) {
	args := []m.Expr{m.StrLit(label)}
	for _, v := range s.vars {
		args = append(args, &m.Var{Name: v.name, Ty: v.ty})
	}
	args = append(args, &m.Var{Name: "err", Ty: m.TBool}, &m.Var{Name: "errmsg", Ty: m.TStr})
	s.out = append(s.out, gen.Print(args...))
}

func (s *st) fn(name string, build func() *m.Func) *m.Func {
	if f, ok := s.funcs[name]; ok {
		return f
	}
	f := build()
	s.funcs[name] = f
	return f
}

func tyName(t *m.Type) string {
	r := strings.NewReplacer("[]", "A", "{}", "M")
	return r.Replace(t.String())
}

// identity function per type: parameter passing and return
func (s *st) idFn(ty *m.Type) *m.Func {
	return s.fn("id_"+tyName(ty), func() *m.Func {
		return &m.Func{Name: "id_" + tyName(ty), Params: []m.Param{{Name: "p", Ty: ty}}, Ret: ty, Body: []m.Stmt{&m.Return{Val: &m.Var{Name: "p", Ty: ty}}}}
	})
}

// rebinding the parameter inside the callee must not show outside; for
// composites a store through the parameter must.
func (s *st) clobberFn(ty *m.Type) *m.Func {
	return s.fn("clobber_"+tyName(ty), func() *m.Func {
		p := &m.Var{Name: "p", Ty: ty}
		f := &m.Func{Name: "clobber_" + tyName(ty), Params: []m.Param{{Name: "p", Ty: ty}}, Ret: m.TNone}
		if ty.K == m.Arr && ty.Sub.K != m.Any {
			f.Body = append(f.Body, &m.If{
				Conds:  []m.Expr{&m.Binary{Op: ">", L: &m.Call{Fn: "len", Args: []m.Expr{m.AsAny(p)}, Ty: m.TNum}, R: m.NumLit(0), Ty: m.TBool}},
				Blocks: [][]m.Stmt{{&m.Assign{Target: &m.Index{X: p, I: m.NumLit(0), Ty: ty.Sub}, Val: s.newLit(ty.Sub)}}},
			})
		}
		if ty.K == m.Map {
			f.Body = append(f.Body, &m.Assign{Target: &m.Dot{X: p, Key: "callee", Ty: ty.Sub}, Val: s.newLit(ty.Sub)})
		}
		f.Body = append(f.Body, &m.Assign{Target: p, Val: s.newLit(ty)}, gen.Print(m.StrLit("in-callee"), p))
		return f
	})
}

func (s *st) packFn(ty *m.Type) *m.Func {
	return s.fn("pack_"+tyName(ty), func() *m.Func {
		at := m.ArrOf(ty)
		return &m.Func{Name: "pack_" + tyName(ty), Params: []m.Param{{Name: "p", Ty: ty}}, Variadic: true, Ret: at, Body: []m.Stmt{&m.Return{Val: &m.Var{Name: "p", Ty: at}}}}
	})
}

func hasAny(t *m.Type) bool {
	for ; t != nil; t = t.Sub {
		if t.K == m.Any {
			return true
		}
	}
	return false
}

func (s *st) step() {
	v := s.anyVar()
	k := rapid.IntRange(0, 25).Draw(s.t, "step")
	if k >= 24 {
		// repetition is the one operation that copies deeply: give it weight, on any array variable
		var cs []vinfo
		for _, x := range s.vars {
			if x.ty.K == m.Arr {
				cs = append(cs, x)
			}
		}
		if len(cs) > 0 {
			c := cs[rapid.IntRange(0, len(cs)-1).Draw(s.t, "reparray")]
			s.made["repetition"] = true
			s.declare(s.fresh(), c.ty, &m.Binary{Op: "*", L: &m.Var{Name: c.name, Ty: c.ty}, R: m.NumLit(float64(rapid.IntRange(1, 2).Draw(s.t, "times"))), Ty: c.ty})
		}
		return
	}
	if k >= 22 {
		// composites held in any elements: take them out by type assertion (shares) and update them later
		if a, ok := s.pick(tAnys); ok {
			n := s.fresh()
			guard := &m.Binary{Op: ">", L: &m.Call{Fn: "len", Args: []m.Expr{m.AsAny(a)}, Ty: m.TNum}, R: m.NumLit(1), Ty: m.TBool}
			if k == 22 {
				s.made["any-element-asserted-array"] = true
				s.out = append(s.out, &m.Decl{Name: n, Ty: tNums, Typed: true}, &m.If{Conds: []m.Expr{guard},
					Blocks: [][]m.Stmt{{&m.Assign{Target: &m.Var{Name: n, Ty: tNums}, Val: &m.Assert{X: &m.Index{X: a, I: m.NumLit(0), Ty: m.TAny}, Ty: tNums}}}}})
				s.vars = append(s.vars, vinfo{n, tNums})
			} else {
				s.made["any-element-asserted-map"] = true
				s.out = append(s.out, &m.Decl{Name: n, Ty: tMapN, Typed: true}, &m.If{Conds: []m.Expr{guard},
					Blocks: [][]m.Stmt{{&m.Assign{Target: &m.Var{Name: n, Ty: tMapN}, Val: &m.Assert{X: &m.Index{X: a, I: m.NumLit(1), Ty: m.TAny}, Ty: tMapN}}}}})
				s.vars = append(s.vars, vinfo{n, tMapN})
			}
		}
		return
	}
	if k == 8 || k == 9 || k == 10 || k == 14 || k == 16 || k == 6 || k == 7 {
		// steps about containers: prefer a container variable
		var cs []vinfo
		for _, x := range s.vars {
			if (x.ty.K == m.Arr && k != 10) || (x.ty.K == m.Map && (k == 10 || k == 16)) {
				cs = append(cs, x)
			}
		}
		if (k == 8 || k == 9 || k == 10 || k == 14 || (k == 16 && rapid.Bool().Draw(s.t, "loopovercontainer"))) && len(cs) > 0 {
			c := cs[rapid.IntRange(0, len(cs)-1).Draw(s.t, "container")]
			v = &m.Var{Name: c.name, Ty: c.ty}
		}
	}
	if k == 16 && v.Ty.K != m.Arr && v.Ty.K != m.Map && v.Ty.K != m.Str {
		if nv, ok := s.pick(m.TNum); ok {
			v = nv
		}
	}
	ty := v.Ty
	switch k {
	case 0: // inferred declaration from a variable
		s.made["decl"] = true
		s.declare(s.fresh(), ty, v)
	case 1: // typed declaration then assignment
		s.made["typed-decl-assign"] = true
		n := s.fresh()
		s.out = append(s.out, &m.Decl{Name: n, Ty: ty, Typed: true}, &m.Assign{Target: &m.Var{Name: n, Ty: ty}, Val: v})
		s.vars = append(s.vars, vinfo{n, ty})
	case 2: // assignment between existing variables of the same type
		if w, ok := s.pick(ty); ok && w.Name != v.Name {
			s.made["assign"] = true
			s.out = append(s.out, &m.Assign{Target: w, Val: v})
		}
	case 3: // rebinding
		s.upd["rebind"] = true
		s.out = append(s.out, &m.Assign{Target: v, Val: s.newLit(ty)})
	case 4: // array literal containing the variable
		if ty.K != m.Any && ty.Depth() < 2 {
			s.made["array-literal-element"] = true
			s.declare(s.fresh(), m.ArrOf(ty), &m.ArrLit{Ty: m.ArrOf(ty), Elems: []m.Expr{v, s.newLit(ty)}})
		}
	case 5: // map literal containing the variable
		if ty.K != m.Any && ty.Depth() < 2 && ty.K != m.Map {
			s.made["map-literal-value"] = true
			s.declare(s.fresh(), m.MapOf(ty), &m.MapLit{Ty: m.MapOf(ty), Keys: []string{"k", "o"}, Vals: []m.Expr{v, s.newLit(ty)}})
		}
	case 6: // store into an existing array element
		if a, ok := s.pick(m.ArrOf(ty)); ok && ty.K != m.Any && !hasAny(ty) {
			s.made["store-element"] = true
			s.upd["index-store"] = true
			s.out = append(s.out, &m.If{
				Conds:  []m.Expr{&m.Binary{Op: ">", L: &m.Call{Fn: "len", Args: []m.Expr{m.AsAny(a)}, Ty: m.TNum}, R: m.NumLit(0), Ty: m.TBool}},
				Blocks: [][]m.Stmt{{&m.Assign{Target: &m.Index{X: a, I: m.NumLit(float64(rapid.IntRange(-1, 0).Draw(s.t, "idx"))), Ty: ty}, Val: v}}},
			})
		}
	case 7: // store into a map value
		if mp, ok := s.pick(m.MapOf(ty)); ok && !hasAny(ty) {
			s.made["store-map-value"] = true
			s.upd["field-store"] = true
			key := rapid.SampledFrom([]string{"a", "k", "z"}).Draw(s.t, "key")
			s.out = append(s.out, &m.Assign{Target: &m.Dot{X: mp, Key: key, Ty: ty}, Val: v})
		}
	case 8: // read back an element
		if ty.K == m.Arr && ty.Sub.K != m.Any {
			s.made["read-element"] = true
			n := s.fresh()
			s.out = append(s.out, &m.Decl{Name: n, Ty: ty.Sub, Typed: true}, &m.If{
				Conds:  []m.Expr{&m.Binary{Op: ">", L: &m.Call{Fn: "len", Args: []m.Expr{m.AsAny(v)}, Ty: m.TNum}, R: m.NumLit(0), Ty: m.TBool}},
				Blocks: [][]m.Stmt{{&m.Assign{Target: &m.Var{Name: n, Ty: ty.Sub}, Val: &m.Index{X: v, I: m.NumLit(0), Ty: ty.Sub}}}},
			})
			s.vars = append(s.vars, vinfo{n, ty.Sub})
		}
	case 9: // element store with a fresh value, through whichever name was picked
		if ty.K == m.Arr && ty.Sub.K != m.Any {
			s.upd["index-store"] = true
			s.out = append(s.out, &m.If{
				Conds:  []m.Expr{&m.Binary{Op: ">", L: &m.Call{Fn: "len", Args: []m.Expr{m.AsAny(v)}, Ty: m.TNum}, R: m.NumLit(0), Ty: m.TBool}},
				Blocks: [][]m.Stmt{{&m.Assign{Target: &m.Index{X: v, I: m.NumLit(0), Ty: ty.Sub}, Val: s.newLit(ty.Sub)}}},
			})
		}
	case 10: // field store / delete
		if ty.K == m.Map {
			if rapid.Bool().Draw(s.t, "del") {
				s.upd["del"] = true
				s.out = append(s.out, &m.CallStmt{C: &m.Call{Fn: "del", Args: []m.Expr{v, m.StrLit(rapid.SampledFrom([]string{"a", "b", "k"}).Draw(s.t, "key"))}, Ty: m.TNone}})
			} else {
				s.upd["field-store"] = true
				s.out = append(s.out, &m.Assign{Target: &m.Index{X: v, I: m.StrLit("a"), Ty: ty.Sub}, Val: s.newLit(ty.Sub)})
			}
		}
	case 11: // through the identity function: parameter passing and return
		s.made["param-and-return"] = true
		f := s.idFn(ty)
		s.declare(s.fresh(), ty, &m.Call{Fn: f.Name, Args: []m.Expr{v}, Ty: ty})
	case 12: // callee rebinding / storing through its parameter
		s.upd["inside-callee"] = true
		f := s.clobberFn(ty)
		s.out = append(s.out, &m.CallStmt{C: &m.Call{Fn: f.Name, Args: []m.Expr{v}, Ty: m.TNone}})
	case 13: // variadic pack
		if ty.K != m.Any && ty.Depth() < 2 {
			s.made["variadic-pack"] = true
			f := s.packFn(ty)
			w, _ := s.pick(ty)
			s.declare(s.fresh(), m.ArrOf(ty), &m.Call{Fn: f.Name, Args: []m.Expr{v, w, s.newLit(ty)}, Ty: m.ArrOf(ty)})
		}
	case 14: // slice, concatenation, repetition: fresh containers
		if ty.K == m.Arr {
			var e m.Expr
			switch rapid.IntRange(0, 2).Draw(s.t, "fresh") {
			case 0:
				s.made["slice"] = true
				e = &m.Slice{X: v}
			case 1:
				s.made["concat"] = true
				w, _ := s.pick(ty)
				e = &m.Binary{Op: "+", L: v, R: w, Ty: ty}
			default:
				s.made["repetition"] = true
				e = &m.Binary{Op: "*", L: v, R: m.NumLit(2), Ty: ty}
			}
			s.declare(s.fresh(), ty, e)
		}
	case 15: // into an any variable
		if a, ok := s.pick(m.TAny); ok && ty.K != m.Any && !hasAny(ty) {
			s.made["into-any"] = true
			s.out = append(s.out, &m.Assign{Target: a, Val: m.AsAny(v)})
		}
	case 16: // loop variable over an array / string / map
		switch {
		case ty.K == m.Arr && ty.Sub.K != m.Any:
			s.made["loop-var"] = true
			n := s.fresh()
			body := []m.Stmt{&m.Assign{Target: &m.Var{Name: n, Ty: ty.Sub}, Val: &m.Var{Name: "e", Ty: ty.Sub}}}
			if ty.Sub.K == m.Arr {
				s.upd["index-store"] = true
				body = append(body, &m.If{
					Conds:  []m.Expr{&m.Binary{Op: ">", L: &m.Call{Fn: "len", Args: []m.Expr{m.AsAny(&m.Var{Name: "e", Ty: ty.Sub})}, Ty: m.TNum}, R: m.NumLit(0), Ty: m.TBool}},
					Blocks: [][]m.Stmt{{&m.Assign{Target: &m.Index{X: &m.Var{Name: "e", Ty: ty.Sub}, I: m.NumLit(0), Ty: ty.Sub.Sub}, Val: s.newLit(ty.Sub.Sub)}}},
				})
			}
			s.out = append(s.out, &m.Decl{Name: n, Ty: ty.Sub, Typed: true}, &m.ForIn{V: "e", X: v, Body: body})
			s.vars = append(s.vars, vinfo{n, ty.Sub})
		case ty.K == m.Num:
			// numeric range: the loop variable's value is copied out through every kind of sink,
			// or a variable is copied into the loop variable; the loop then goes on
			s.made["loop-var-num"] = true
			i := "i" + strconv.Itoa(s.n+1)
			iv := &m.Var{Name: i, Ty: m.TNum}
			var body []m.Stmt
			nsinks := rapid.IntRange(1, 3).Draw(s.t, "nsinks")
			for j := 0; j < nsinks; j++ {
				switch rapid.IntRange(0, 5).Draw(s.t, "sink") {
				case 0:
					body = append(body, &m.Assign{Target: v, Val: iv})
				case 1:
					if a, ok := s.pick(tNums); ok {
						body = append(body, &m.If{
							Conds:  []m.Expr{&m.Binary{Op: ">", L: &m.Call{Fn: "len", Args: []m.Expr{m.AsAny(a)}, Ty: m.TNum}, R: m.NumLit(0), Ty: m.TBool}},
							Blocks: [][]m.Stmt{{&m.Assign{Target: &m.Index{X: a, I: m.NumLit(0), Ty: m.TNum}, Val: iv}}},
						})
					}
				case 2:
					if mp, ok := s.pick(tMapN); ok {
						body = append(body, &m.Assign{Target: &m.Dot{X: mp, Key: "loop", Ty: m.TNum}, Val: iv})
					}
				case 3:
					if a, ok := s.pick(m.TAny); ok {
						body = append(body, &m.Assign{Target: a, Val: m.AsAny(iv)})
					}
				case 4: // the other direction: a variable is copied into the loop variable
					body = append(body, &m.Assign{Target: iv, Val: v})
				default:
					if a, ok := s.pick(tNums); ok {
						body = append(body, &m.Assign{Target: a, Val: &m.Binary{Op: "+", L: a, R: &m.ArrLit{Ty: tNums, Elems: []m.Expr{iv}}, Ty: tNums}})
					}
				}
			}
			body = append(body, gen.Print(m.StrLit("in-loop"), iv, v))
			f := &m.ForNum{V: i, Stop: m.NumLit(float64(rapid.IntRange(2, 4).Draw(s.t, "stop"))), Body: body}
			switch rapid.IntRange(0, 2).Draw(s.t, "rangeform") {
			case 1:
				f.Start = m.NumLit(1)
			case 2:
				f.Start, f.Stop, f.Step = m.NumLit(3), m.NumLit(0), m.NumLit(-1)
			}
			s.out = append(s.out, f)
		case ty.K == m.Str || ty.K == m.Map:
			s.made["loop-var"] = true
			// the loop variable (a character or a key) is copied out through every kind of sink and
			// the copies are observed at the start of the next iteration, while the loop goes on
			n := s.fresh()
			nv, ev := &m.Var{Name: n, Ty: m.TStr}, &m.Var{Name: "e", Ty: m.TStr}
			obs := []m.Expr{m.StrLit("in-loop"), ev, nv}
			sinks := []m.Stmt{&m.Assign{Target: nv, Val: ev}}
			nsinks := rapid.IntRange(0, 3).Draw(s.t, "nsinks")
			for j := 0; j < nsinks; j++ {
				switch rapid.IntRange(0, 4).Draw(s.t, "sink") {
				case 0:
					if a, ok := s.need(tStrs); ok && a.Name != v.Name {
						s.made["loop-var-str:index-store"] = true
						obs = append(obs, a)
						sinks = append(sinks, &m.If{
							Conds:  []m.Expr{&m.Binary{Op: ">", L: &m.Call{Fn: "len", Args: []m.Expr{m.AsAny(a)}, Ty: m.TNum}, R: m.NumLit(0), Ty: m.TBool}},
							Blocks: [][]m.Stmt{{&m.Assign{Target: &m.Index{X: a, I: m.NumLit(float64(rapid.IntRange(-1, 0).Draw(s.t, "idx"))), Ty: m.TStr}, Val: ev}}},
						})
					}
				case 1:
					if mp, ok := s.need(tMapS); ok && mp.Name != v.Name {
						s.made["loop-var-str:key-store"] = true
						obs = append(obs, mp)
						sinks = append(sinks, &m.Assign{Target: &m.Dot{X: mp, Key: "loop", Ty: m.TStr}, Val: ev})
					}
				case 2:
					if a, ok := s.need(m.TAny); ok {
						s.made["loop-var-str:any"] = true
						obs = append(obs, a)
						sinks = append(sinks, &m.Assign{Target: a, Val: m.AsAny(ev)})
					}
				case 3:
					if a, ok := s.need(tStrs); ok && a.Name != v.Name {
						s.made["loop-var-str:concat"] = true
						obs = append(obs, a)
						sinks = append(sinks, &m.Assign{Target: a, Val: &m.Binary{Op: "+", L: a, R: &m.ArrLit{Ty: tStrs, Elems: []m.Expr{ev}}, Ty: tStrs}})
					}
				default: // the other direction: the loop variable is overwritten, the copy must stay
					s.made["loop-var-str:assigned"] = true
					sinks = append(sinks, &m.Assign{Target: ev, Val: m.StrLit("w")}, gen.Print(m.StrLit("after-write"), ev, nv))
				}
			}
			body := append([]m.Stmt{gen.Print(obs...)}, sinks...)
			s.out = append(s.out, &m.Decl{Name: n, Ty: m.TStr, Typed: true}, &m.ForIn{V: "e", X: v, Body: body})
			s.vars = append(s.vars, vinfo{n, m.TStr})
		}
	case 17, 18: // capture err / errmsg by one of the routes
		isMsg := rapid.Bool().Draw(s.t, "errmsg")
		src, sty := &m.Var{Name: "err", Ty: m.TBool}, m.TBool
		if isMsg {
			src, sty = &m.Var{Name: "errmsg", Ty: m.TStr}, m.TStr
		}
		switch rapid.IntRange(0, 5).Draw(s.t, "errroute") {
		case 0:
			s.made["err:decl"] = true
			s.declare(s.fresh(), sty, src)
		case 1:
			if w, ok := s.pick(sty); ok {
				s.made["err:assign"] = true
				s.out = append(s.out, &m.Assign{Target: w, Val: src})
			}
		case 2:
			s.made["err:array-literal"] = true
			s.declare(s.fresh(), m.ArrOf(sty), &m.ArrLit{Ty: m.ArrOf(sty), Elems: []m.Expr{src}})
		case 3:
			if mp, ok := s.pick(m.MapOf(sty)); ok {
				s.made["err:map-store"] = true
				s.out = append(s.out, &m.Assign{Target: &m.Dot{X: mp, Key: "e", Ty: sty}, Val: src})
			}
		case 4:
			if a, ok := s.pick(m.TAny); ok {
				s.made["err:into-any"] = true
				s.out = append(s.out, &m.Assign{Target: a, Val: m.AsAny(src)})
			}
		default:
			s.made["err:param-and-return"] = true
			f := s.idFn(sty)
			s.declare(s.fresh(), sty, &m.Call{Fn: f.Name, Args: []m.Expr{src}, Ty: sty})
		}
	case 19, 20: // change err / errmsg
		s.upd["err-change"] = true
		arg := rapid.SampledFrom([]string{"zz", "1", "not a number", "2.5", "true", "maybe"}).Draw(s.t, "convarg")
		n := s.fresh()
		if rapid.Bool().Draw(s.t, "str2bool") {
			s.declare(n, m.TBool, &m.Call{Fn: "str2bool", Args: []m.Expr{m.StrLit(arg)}, Ty: m.TBool})
		} else {
			s.declare(n, m.TNum, &m.Call{Fn: "str2num", Args: []m.Expr{m.StrLit(arg)}, Ty: m.TNum})
		}
	case 21: // the program itself sets err / errmsg (documented convention)
		s.upd["err-change"] = true
		if rapid.Bool().Draw(s.t, "seterr") {
			s.out = append(s.out, &m.Assign{Target: &m.Var{Name: "err", Ty: m.TBool}, Val: m.BoolLit(rapid.Bool().Draw(s.t, "errval"))})
		} else {
			s.out = append(s.out, &m.Assign{Target: &m.Var{Name: "errmsg", Ty: m.TStr}, Val: s.newLit(m.TStr)})
		}
	}
}

func TestProp(t *testing.T) {
	if h.ReplayPath() != "" {
		t.Skip("replay run")
	}
	ctx := h.Setup(t, "C09")
	rapid.Check(t, func(t *rapid.T) {
		s := &st{t: t, made: map[string]bool{}, upd: map[string]bool{}, funcs: map[string]*m.Func{}}
		// a starting population: one variable of a few random types
		nstart := rapid.IntRange(2, 5).Draw(t, "nstart")
		for i := 0; i < nstart; i++ {
			ty := pool[rapid.IntRange(0, len(pool)-1).Draw(t, "type")]
			if i == 0 { // always at least one array
				ty = []*m.Type{tNums, tNums2, tBools, tStrs, tAnys, tAnys, tMaps}[rapid.IntRange(0, 6).Draw(t, "arrtype")]
			}
			if i == 1 { // and a num
				ty = m.TNum
			}
			if ty.K == m.Any {
				n := s.fresh()
				s.out = append(s.out, &m.Decl{Name: n, Ty: ty, Typed: true})
				s.vars = append(s.vars, vinfo{n, ty})
				continue
			}
			s.declare(s.fresh(), ty, s.newLit(ty))
		}
		s.observe("start")
		nsteps := rapid.IntRange(3, 15).Draw(t, "nsteps")
		for i := 0; i < nsteps; i++ {
			before := len(s.out)
			s.step()
			if len(s.out) != before {
				s.observe("step" + strconv.Itoa(i))
			}
		}
		prog := &m.Program{}
		names := make([]string, 0, len(s.funcs))
		for n := range s.funcs {
			names = append(names, n)
		}
		sort.Strings(names)
		for _, n := range names {
			prog.Items = append(prog.Items, m.Item{F: s.funcs[n]})
		}
		for _, x := range s.out {
			prog.Items = append(prog.Items, m.Item{S: x})
		}
		src, _ := m.Render(prog, eng.RapidLayout{T: t, Calm: true})
		trace, out, _ := eng.Reference(prog, nil)
		if eng.Skip(out) {
			ctx.Rec.Case(false, src, "skipped:"+out.Class)
			return
		}
		cs := eng.ProgCase{Src: src, Expect: trace, ExpectClass: out.Class, ExpectMsg: out.Msg}
		fl, skipped, _ := eng.Check(cs)
		if skipped {
			ctx.Rec.Case(false, src, "skipped:fuel")
			return
		}
		var classes []string
		for k := range s.made {
			classes = append(classes, "make:"+k)
		}
		for k := range s.upd {
			classes = append(classes, "update:"+k)
		}
		sort.Strings(classes)
		nontrivial := len(s.made) > 0 && len(s.upd) > 0
		ctx.Rec.Case(nontrivial, src, append(classes, "outcome:"+out.Class)...)
		if nontrivial && ctx.Rec.WantSample() && len(src) < 1200 {
			ctx.Rec.Sample(map[string]any{"src": src, "expect_last": trace[len(trace)-1], "features": strings.Join(classes, ",")})
		}
		ctx.Report(t, fl)
	})
}

func TestReplay(t *testing.T) {
	path := h.ReplayPath()
	if path == "" {
		t.Skip("no replay requested")
	}
	ctx := h.Setup(t, "C09")
	var c eng.ProgCase
	if _, err := h.LoadReplay(path, &c); err != nil {
		t.Fatalf("cannot load replay: %v", err)
	}
	fl, _, _ := eng.Check(c)
	ctx.FinishReplay(t, fl)
}
