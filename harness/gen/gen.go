// Package gen generates well-typed model programs by construction (type
// directed, no rejection sampling). Every random choice is a rapid draw.
package gen

import (
	"strconv"

	"pgregory.net/rapid"
	"verif/harness/m"
)

// Cfg tunes what the generator produces.
type Cfg struct {
	ExprDepth       int  // maximum expression depth
	BlockDepth      int  // maximum nesting of blocks
	MaxStmts        int  // maximum statements per block
	Any             bool // use the any type
	Maps            bool // use map types
	Tracers         bool // wrap sub-expressions in printing identity functions
	Funcs           bool // generate and call user functions
	Loops           bool
	Asserts         bool // type assertions (often panic)
	RiskyIndex      bool // indices that may be out of range
	Builtins        bool // len, sprint, upper, str2num, ...
	Shadow          bool // declarations may reuse the name of a variable of an enclosing block
	EarlyExit       bool // return inside nested blocks of functions
	Markers         bool // every block prints a marker on entry
	Recursion       bool // add recursive and mutually recursive functions
	IterMarks       bool // loop bodies start with print "@iter", function bodies with print "@call"
	Tests           bool // sprinkle calls of the test built-in
	NoCalls         bool // no function calls at all (not even print): variables are "used" by self-assignment
	NoTyped         bool // no typed declarations
	NoLogic         bool // no and / or
	NoDot           bool // no m.key, only m["key"]
	ASCII           bool // ASCII-only string contents
	NoMapStore      bool // no assignment to map entries, no del
	NoZeroStep      bool // numeric ranges never have step 0
	NoLoopVarShadow bool // loop variables get fresh names
}

// Default is a balanced configuration.
var Default = Cfg{ExprDepth: 4, BlockDepth: 3, MaxStmts: 6, Any: true, Maps: true, Funcs: true, Loops: true, Builtins: true}

// VarInfo describes a variable in scope.
type VarInfo struct {
	Name     string
	Ty       *m.Type
	ReadOnly bool
	NoShadow bool // lives in the same parser scope as the block that follows (parameters, loop variables)
	Len      int  // known minimum length for literal-initialised, never reassigned containers, else -1
	Keys     []string
}

// G is the generator state.
type G struct {
	T      *rapid.T
	Cfg    Cfg
	scopes [][]*VarInfo
	Funcs  []*m.Func
	n      int
	inLoop int
	inFunc bool
	// statistics for non-triviality rules
	TracerCalls, ShortCircuitTracers, BinaryOps, AnyWraps, EmptyTyped, ConstConvs int
	OpPairs                                                                       map[string]int
	tracers                                                                       map[string]*m.Func
	noEmpty                                                                       int
	CyclesAvoided                                                                 int
	recs                                                                          []*m.Func
	Shadows, EarlyReturns, Breaks, blockID, TermChains                            int
	retType                                                                       *m.Type // return type of the function being generated, nil at top level
	RangeKinds                                                                    map[string]int
}

// New creates a generator.
func New(t *rapid.T, cfg Cfg) *G {
	return &G{T: t, Cfg: cfg, scopes: [][]*VarInfo{nil}, OpPairs: map[string]int{}, tracers: map[string]*m.Func{}, RangeKinds: map[string]int{}}
}

func (g *G) intn(label string, n int) int {
	if n <= 1 {
		return 0
	}
	return rapid.IntRange(0, n-1).Draw(g.T, label)
}

func (g *G) chance(label string, num, den int) bool { return g.intn(label, den) < num }

func (g *G) name(prefix string) string {
	g.n++
	return prefix + strconv.Itoa(g.n)
}

// Nums and Strs are the literal value pools.
var (
	Nums = []float64{0, 1, 2, 3, 4, 5, 7, 10, -1, -2, -7, 0.5, 1.5, 2.25, -0.5, 0.125, 100, 1000000, 12345.678, 3}
	Strs = []string{"", "a", "b", "ab", "abc", "hello", "ä", "日本", "🌍x", "a b", "A", "Zz", "%v", "x\"y", "tab\tq", "back\\slash", "1", "true", "é"}
)

// Push opens a new block scope; Pop closes it and returns its variables.
func (g *G) Push() { g.scopes = append(g.scopes, nil) }

// Pop closes the innermost scope.
func (g *G) Pop() []*VarInfo {
	top := g.scopes[len(g.scopes)-1]
	g.scopes = g.scopes[:len(g.scopes)-1]
	return top
}

// Declare adds a variable to the innermost scope.
func (g *G) Declare(v *VarInfo) { g.scopes[len(g.scopes)-1] = append(g.scopes[len(g.scopes)-1], v) }

// Visible lists the variables in scope, innermost shadowing outer ones.
func (g *G) Visible() []*VarInfo {
	seen := map[string]bool{}
	var out []*VarInfo
	for i := len(g.scopes) - 1; i >= 0; i-- {
		for j := len(g.scopes[i]) - 1; j >= 0; j-- {
			v := g.scopes[i][j]
			if !seen[v.Name] {
				seen[v.Name] = true
				out = append(out, v)
			}
		}
	}
	return out
}

func (g *G) varsOf(ty *m.Type) []*VarInfo {
	var out []*VarInfo
	for _, v := range g.Visible() {
		if v.Ty.Eq(ty) {
			out = append(out, v)
		}
	}
	return out
}

// Type draws a random type.
func (g *G) Type(depth int) *m.Type {
	k := g.intn("type", 12)
	switch {
	case k < 4:
		return m.TNum
	case k < 6:
		return m.TStr
	case k < 8:
		return m.TBool
	case k == 8 && g.Cfg.Any:
		return m.TAny
	case k >= 9 && k <= 10 && depth > 0:
		return m.ArrOf(g.Type(depth - 1))
	case k == 11 && depth > 0 && g.Cfg.Maps:
		return m.MapOf(g.Type(depth - 1))
	}
	return m.TNum
}

// concrete draws a non-any type.
func (g *G) concrete(depth int) *m.Type {
	for i := 0; i < 4; i++ {
		if t := g.Type(depth); t.K != m.Any {
			return t
		}
	}
	return m.TNum
}

// Lit returns a literal of a basic type.
func (g *G) Lit(ty *m.Type) m.Expr {
	switch ty.K {
	case m.Num:
		return m.NumLit(Nums[g.intn("num", len(Nums))])
	case m.Str:
		if g.Cfg.ASCII {
			return m.StrLit([]string{"", "a", "b", "ab", "abc", "hello", "a b", "A", "Zz", "1"}[g.intn("str", 10)])
		}
		return m.StrLit(Strs[g.intn("str", len(Strs))])
	case m.Bool:
		return m.BoolLit(g.intn("bool", 2) == 1)
	}
	panic("gen: Lit of non-basic type " + ty.String())
}

var keyPool = []string{"a", "b", "c", "d", "k1", "for", "name", "x"}

// Literal returns a literal expression whose inferred type is exactly ty.
// For ty == any it returns nil (there is no literal of type any).
func (g *G) Literal(ty *m.Type, d int) m.Expr {
	switch ty.K {
	case m.Num, m.Str, m.Bool:
		return g.Lit(ty)
	case m.Any:
		return nil
	case m.Arr:
		n := 1 + g.intn("arrlen", 3)
		if d <= 0 {
			n = 1
		}
		a := &m.ArrLit{Ty: ty}
		if ty.Sub.K == m.Any {
			if g.noEmpty == 0 && g.intn("emptyany", 4) == 0 {
				return a // [] infers []any
			}
			n++
			for i := 0; i < n; i++ {
				var et *m.Type
				switch i {
				case 0:
					et = m.TNum
				case 1:
					et = m.TStr
				default:
					et = g.concrete(1)
				}
				g.AnyWraps++
				a.Elems = append(a.Elems, m.AsAny(g.elem(et, d-1)))
			}
			return a
		}
		for i := 0; i < n; i++ {
			a.Elems = append(a.Elems, g.elem(ty.Sub, d-1))
		}
		return a
	case m.Map:
		n := 1 + g.intn("maplen", 3)
		if d <= 0 {
			n = 1
		}
		mp := &m.MapLit{Ty: ty}
		off := g.intn("keyoff", len(keyPool))
		if ty.Sub.K == m.Any {
			if g.noEmpty == 0 && g.intn("emptyany", 4) == 0 {
				return mp
			}
			n++
		}
		for i := 0; i < n; i++ {
			mp.Keys = append(mp.Keys, keyPool[(off+i)%len(keyPool)])
			et := ty.Sub
			if ty.Sub.K == m.Any {
				switch i {
				case 0:
					et = m.TNum
				case 1:
					et = m.TBool
				default:
					et = g.concrete(1)
				}
				g.AnyWraps++
				mp.Vals = append(mp.Vals, m.AsAny(g.elem(et, d-1)))
				continue
			}
			mp.Vals = append(mp.Vals, g.elem(et, d-1))
		}
		return mp
	}
	panic("gen: Literal")
}

// elem is an element of a composite literal: natural type ty, never an empty literal.
func (g *G) elem(ty *m.Type, d int) m.Expr {
	if ty.K == m.Any {
		if vs := g.varsOf(ty); len(vs) > 0 {
			return g.useVar(vs[g.intn("var", len(vs))])
		}
		return m.AsAny(g.Lit(m.TBool))
	}
	g.noEmpty++
	e := g.Natural(ty, d)
	g.noEmpty--
	return e
}

func (g *G) useVar(v *VarInfo) m.Expr { return &m.Var{Name: v.Name, Ty: v.Ty} }

// Conv returns an expression acceptable where a value of type ty is required
// (assignment, argument, return): the natural type is ty, or ty is any and the
// value is wrapped, or the value is an empty literal typed by the context.
func (g *G) Conv(ty *m.Type, d int) m.Expr {
	if ty.K == m.Any {
		if vs := g.varsOf(ty); len(vs) > 0 && g.chance("anyvar", 1, 3) {
			return g.useVar(vs[g.intn("var", len(vs))])
		}
		g.AnyWraps++
		return m.AsAny(g.Natural(g.concrete(1), d))
	}
	if ty.Composite() && g.chance("emptylit", 1, 8) {
		g.EmptyTyped++
		if ty.K == m.Arr {
			return &m.ArrLit{Ty: ty}
		}
		return &m.MapLit{Ty: ty}
	}
	if ty.Composite() && leafIsAny(ty) && g.chance("constconv", 1, 3) {
		// a constant of a more specific type, which the typed context converts (spec.md#assignability-of-constant-values)
		g.ConstConvs++
		leaf := []*m.Type{m.TNum, m.TStr, m.TBool}[g.intn("constleaf", 3)]
		e := g.constFor(ty, leaf, d)
		if ty.K == m.Arr {
			switch g.intn("constexpr", 6) {
			case 0:
				return g.bin("+", e, g.constFor(ty, leaf, d), ty)
			case 1:
				return g.bin("*", e, m.NumLit(float64(g.intn("constrep", 3))), ty)
			case 2:
				return &m.Slice{X: e}
			case 3:
				return &m.Group{X: e}
			}
		}
		return e
	}
	return g.Natural(ty, d)
}

func leafIsAny(t *m.Type) bool {
	for t.Sub != nil {
		t = t.Sub
	}
	return t.K == m.Any
}

// constFor builds a literal of type ty (whose leaf type is any) all of whose leaves are
// constants of the one basic type leaf: written down it is a constant of the more specific type.
func (g *G) constFor(ty, leaf *m.Type, d int) m.Expr {
	switch ty.K {
	case m.Any:
		return m.AsAny(g.Lit(leaf))
	case m.Arr:
		a := &m.ArrLit{Ty: ty}
		for i, n := 0, 1+g.intn("constlen", 3); i < n; i++ {
			a.Elems = append(a.Elems, g.constFor(ty.Sub, leaf, d-1))
		}
		return a
	}
	mp := &m.MapLit{Ty: ty}
	off := g.intn("keyoff", len(keyPool))
	for i, n := 0, 1+g.intn("constlen", 2); i < n; i++ {
		mp.Keys = append(mp.Keys, keyPool[(off+i)%len(keyPool)])
		mp.Vals = append(mp.Vals, g.constFor(ty.Sub, leaf, d-1))
	}
	return mp
}

func (g *G) leaf(ty *m.Type, d int) m.Expr {
	if vs := g.varsOf(ty); len(vs) > 0 && (ty.K == m.Any || g.chance("usevar", 2, 3)) {
		return g.useVar(vs[g.intn("var", len(vs))])
	}
	if ty.K == m.Any {
		return nil
	}
	return g.Literal(ty, d)
}

// Tracer returns (creating it on first use) the printing identity function for ty.
func (g *G) Tracer(ty *m.Type) *m.Func {
	key := ty.String()
	if f, ok := g.tracers[key]; ok {
		return f
	}
	f := &m.Func{Name: g.name("t"), Params: []m.Param{{Name: "p", Ty: ty}}, Ret: ty}
	f.Body = []m.Stmt{
		&m.CallStmt{C: &m.Call{Fn: "print", Args: []m.Expr{m.AsAny(m.StrLit(f.Name))}, Ty: m.TNone}},
		&m.Return{Val: &m.Var{Name: "p", Ty: ty}},
	}
	g.tracers[key] = f
	g.Funcs = append(g.Funcs, f)
	return f
}

func (g *G) trace(e m.Expr) m.Expr {
	if !g.Cfg.Tracers || e.T().K == m.Any || !g.chance("tracer", 1, 3) {
		return e
	}
	f := g.Tracer(e.T())
	g.TracerCalls++
	return &m.Call{Fn: f.Name, Args: []m.Expr{e}, Ty: e.T()}
}

var arith = []string{"+", "-", "*", "/", "%"}
var cmps = []string{"<", "<=", ">", ">="}

func (g *G) bin(op string, l, r m.Expr, ty *m.Type) m.Expr {
	g.BinaryOps++
	if lb, ok := l.(*m.Binary); ok {
		g.OpPairs[lb.Op+" "+op]++
	}
	if rb, ok := r.(*m.Binary); ok {
		g.OpPairs[op+" "+rb.Op]++
	}
	return &m.Binary{Op: op, L: l, R: r, Ty: ty}
}

// Natural returns an expression whose static (inferred) type is exactly ty.
// It may return nil only for ty == any when no any-typed value is reachable.
func (g *G) Natural(ty *m.Type, d int) m.Expr {
	if d <= 0 {
		return g.leaf(ty, d)
	}
	// productions common to all types
	switch g.intn("generic", 14) {
	case 0:
		if e := g.Natural(ty, d-1); e != nil {
			return &m.Group{X: e}
		}
	case 1: // element of an array literal or variable
		if ty.K != m.Any || g.Cfg.Any {
			if e := g.indexInto(ty, d); e != nil {
				return e
			}
		}
	case 2:
		if g.Cfg.Maps {
			if e := g.fieldOf(ty, d); e != nil {
				return e
			}
		}
	case 3:
		if g.Cfg.Funcs {
			if e := g.callFunc(ty, d); e != nil {
				return e
			}
		}
	case 4:
		if g.Cfg.Asserts && g.Cfg.Any && ty.K != m.Any {
			if vs := g.varsOf(m.TAny); len(vs) > 0 {
				return &m.Assert{X: g.useVar(vs[g.intn("var", len(vs))]), Ty: ty}
			}
		}
	case 5:
		if g.Cfg.Tracers && ty.K != m.Any {
			f := g.Tracer(ty)
			g.TracerCalls++
			return &m.Call{Fn: f.Name, Args: []m.Expr{g.Natural(ty, d-1)}, Ty: ty}
		}
	}
	switch ty.K {
	case m.Num:
		switch g.intn("numprod", 10) {
		case 0, 1, 2, 3:
			op := arith[g.intn("arith", len(arith))]
			l := g.trace(g.Natural(m.TNum, d-1))
			var r m.Expr
			if op == "/" || op == "%" {
				// keep the divisor a positive literal most of the time: the documents
				// say nothing about division by zero or the sign of %
				if g.chance("safe-div", 5, 6) {
					r = m.NumLit([]float64{1, 2, 4, 5, 8, 0.5, 3}[g.intn("div", 7)])
				} else {
					r = g.trace(g.Natural(m.TNum, d-1))
				}
			} else {
				r = g.trace(g.Natural(m.TNum, d-1))
			}
			return g.bin(op, l, r, m.TNum)
		case 4:
			return &m.Unary{Op: "-", X: g.Natural(m.TNum, d-1)}
		case 5:
			if g.Cfg.Builtins {
				var arg m.Expr
				switch g.intn("lenarg", 3) {
				case 0:
					arg = g.Natural(m.TStr, d-1)
				case 1:
					arg = g.Natural(m.ArrOf(g.concrete(0)), d-1)
				default:
					if g.Cfg.Maps {
						arg = g.Natural(m.MapOf(g.concrete(0)), d-1)
					} else {
						arg = g.Natural(m.TStr, d-1)
					}
				}
				return &m.Call{Fn: "len", Args: []m.Expr{m.AsAny(arg)}, Ty: m.TNum}
			}
		case 6:
			if g.Cfg.Builtins {
				fn := []string{"abs", "floor", "ceil"}[g.intn("math1", 3)]
				return &m.Call{Fn: fn, Args: []m.Expr{g.Natural(m.TNum, d-1)}, Ty: m.TNum}
			}
		case 7:
			if g.Cfg.Builtins {
				fn := []string{"min", "max"}[g.intn("math2", 2)]
				return &m.Call{Fn: fn, Args: []m.Expr{g.Natural(m.TNum, d-1), g.Natural(m.TNum, d-1)}, Ty: m.TNum}
			}
		}
	case m.Str:
		switch g.intn("strprod", 10) {
		case 0, 1, 2:
			return g.bin("+", g.trace(g.Natural(m.TStr, d-1)), g.trace(g.Natural(m.TStr, d-1)), m.TStr)
		case 3:
			if g.Cfg.Builtins {
				n := 1 + g.intn("sprintn", 2)
				c := &m.Call{Fn: "sprint", Ty: m.TStr}
				for i := 0; i < n; i++ {
					c.Args = append(c.Args, m.AsAny(g.Natural(g.concrete(1), d-1)))
				}
				return c
			}
		case 4:
			if g.Cfg.Builtins {
				fn := []string{"upper", "lower"}[g.intn("case", 2)]
				return &m.Call{Fn: fn, Args: []m.Expr{g.Natural(m.TStr, d-1)}, Ty: m.TStr}
			}
		case 5:
			if g.Cfg.Builtins {
				return &m.Call{Fn: "typeof", Args: []m.Expr{g.Conv(m.TAny, d-1)}, Ty: m.TStr}
			}
		case 6: // slice of a string literal with valid bounds
			s := Strs[g.intn("str", len(Strs))]
			if g.Cfg.ASCII {
				s = []string{"", "a", "ab", "abc", "hello", "a b"}[g.intn("asciistr", 6)]
			}
			n := len([]rune(s))
			lo := g.intn("lo", n+1)
			hi := lo + g.intn("hi", n-lo+1)
			sl := &m.Slice{X: m.StrLit(s)}
			if g.Cfg.RiskyIndex && g.chance("riskyslice", 1, 3) {
				g.riskyBounds(sl, n)
				return sl
			}
			if g.chance("haslo", 2, 3) {
				sl.Lo = m.NumLit(float64(lo))
			} else {
				lo = 0
			}
			if g.chance("hashi", 2, 3) {
				if g.chance("neghi", 1, 3) && hi < n {
					sl.Hi = m.NumLit(float64(hi - n))
				} else {
					sl.Hi = m.NumLit(float64(hi))
				}
			}
			_ = lo
			return sl
		}
	case m.Bool:
		switch g.intn("boolprod", 12) {
		case 0, 1:
			op := cmps[g.intn("cmp", len(cmps))]
			return g.bin(op, g.trace(g.Natural(m.TNum, d-1)), g.trace(g.Natural(m.TNum, d-1)), m.TBool)
		case 2:
			op := cmps[g.intn("cmp", len(cmps))]
			return g.bin(op, g.trace(g.Natural(m.TStr, d-1)), g.trace(g.Natural(m.TStr, d-1)), m.TBool)
		case 3, 4:
			op := []string{"==", "!="}[g.intn("eq", 2)]
			t := g.Type(1 + g.intn("eqdepth", 2))
			l := g.Natural(t, d-1)
			if l == nil {
				t = m.TNum
				l = g.Natural(t, d-1)
			}
			r := g.Natural(t, d-1)
			if r == nil || g.chance("sameoperand", 1, 3) {
				// the same expression written twice: structurally equal values from two source sites
				r = l
			}
			return g.bin(op, g.trace(l), g.trace(r), m.TBool)
		case 5, 6, 7:
			if g.Cfg.NoLogic {
				break
			}
			op := []string{"and", "or"}[g.intn("logic", 2)]
			l := g.trace(g.Natural(m.TBool, d-1))
			r := g.trace(g.Natural(m.TBool, d-1))
			if c, ok := r.(*m.Call); ok && g.tracers[c.T().String()] != nil && c.Fn == g.tracers[c.T().String()].Name {
				g.ShortCircuitTracers++
			}
			return g.bin(op, l, r, m.TBool)
		case 8:
			return &m.Unary{Op: "!", X: g.Natural(m.TBool, d-1)}
		case 9:
			if g.Cfg.Maps && g.Cfg.Builtins {
				mt := m.MapOf(g.concrete(0))
				return &m.Call{Fn: "has", Args: []m.Expr{g.Natural(mt, d-1), m.StrLit(keyPool[g.intn("key", len(keyPool))])}, Ty: m.TBool}
			}
		}
	case m.Arr:
		switch g.intn("arrprod", 10) {
		case 0, 1:
			l := g.Natural(ty, d-1)
			r := g.Natural(ty, d-1)
			if g.noEmpty == 0 && g.chance("emptyside", 1, 8) {
				r = &m.ArrLit{Ty: ty}
			}
			return g.bin("+", g.trace(l), g.trace(r), ty)
		case 2:
			cnt := []float64{0, 1, 2, 3}[g.intn("rep", 4)]
			return g.bin("*", g.trace(g.Natural(ty, d-1)), m.NumLit(cnt), ty)
		case 3:
			x := g.Natural(ty, d-1)
			sl := &m.Slice{X: x}
			if g.Cfg.RiskyIndex && g.chance("riskyslice", 1, 3) {
				n := 2
				if al, ok := x.(*m.ArrLit); ok {
					n = len(al.Elems)
				}
				g.riskyBounds(sl, n)
				return sl
			}
			if g.chance("haslo", 1, 2) {
				sl.Lo = m.NumLit(0)
			}
			if al, ok := x.(*m.ArrLit); ok && len(al.Elems) > 0 && g.chance("hashi", 1, 2) {
				sl.Hi = m.NumLit(float64(g.intn("hi", len(al.Elems)+1)))
			}
			return sl
		}
	}
	return g.leaf(ty, d)
}

// riskyBounds gives sl bounds at and just beyond the edges of a container of length n.
func (g *G) riskyBounds(sl *m.Slice, n int) {
	edges := []int{-(n + 2), -(n + 1), -n, -1, 0, 1, n - 1, n, n + 1, n + 2}
	if g.chance("haslo", 3, 4) {
		sl.Lo = m.NumLit(float64(edges[g.intn("loedge", len(edges))]))
	}
	if g.chance("hashi", 3, 4) {
		sl.Hi = m.NumLit(float64(edges[g.intn("hiedge", len(edges))]))
	}
}

func (g *G) indexInto(ty *m.Type, d int) m.Expr {
	at := m.ArrOf(ty)
	// prefer containers with a known length
	var cands []*VarInfo
	for _, v := range g.varsOf(at) {
		if v.Len > 0 || g.Cfg.RiskyIndex {
			cands = append(cands, v)
		}
	}
	if len(cands) > 0 && g.chance("idxvar", 2, 3) {
		v := cands[g.intn("var", len(cands))]
		n := v.Len
		if n <= 0 {
			n = 2
		}
		i := g.intn("idx", 2*n) - n
		if g.Cfg.RiskyIndex && g.chance("riskyidx", 1, 4) {
			i = []int{-(n + 1), -n, n - 1, n, n + 1}[g.intn("idxedge", 5)]
		}
		return &m.Index{X: g.useVar(v), I: m.NumLit(float64(i)), Ty: ty}
	}
	if ty.K == m.Any {
		return nil
	}
	lit, ok := g.Literal(at, d-1).(*m.ArrLit)
	if !ok || len(lit.Elems) == 0 {
		return nil
	}
	n := len(lit.Elems)
	i := g.intn("idx", 2*n) - n
	if g.Cfg.RiskyIndex && g.chance("riskyidx", 1, 4) {
		i = []int{-(n + 1), -n, n - 1, n, n + 1}[g.intn("idxedge", 5)]
	}
	var ix m.Expr = m.NumLit(float64(i))
	if i >= 0 && g.chance("idxexpr", 1, 3) {
		ix = g.bin("+", m.NumLit(float64(i)), m.NumLit(0), m.TNum)
	}
	return &m.Index{X: lit, I: ix, Ty: ty}
}

func (g *G) fieldOf(ty *m.Type, d int) m.Expr {
	mt := m.MapOf(ty)
	for _, v := range g.varsOf(mt) {
		if len(v.Keys) > 0 && g.chance("fieldvar", 1, 2) {
			k := v.Keys[g.intn("key", len(v.Keys))]
			if !g.Cfg.NoDot && g.chance("dot", 1, 2) {
				return &m.Dot{X: g.useVar(v), Key: k, Ty: ty}
			}
			return &m.Index{X: g.useVar(v), I: m.StrLit(k), Ty: ty}
		}
	}
	if ty.K == m.Any {
		return nil
	}
	lit, ok := g.Literal(mt, d-1).(*m.MapLit)
	if !ok || len(lit.Keys) == 0 {
		return nil
	}
	k := lit.Keys[g.intn("key", len(lit.Keys))]
	if !g.Cfg.NoDot && g.chance("dot", 1, 2) {
		return &m.Dot{X: lit, Key: k, Ty: ty}
	}
	return &m.Index{X: lit, I: m.StrLit(k), Ty: ty}
}

func (g *G) callFunc(ty *m.Type, d int) m.Expr {
	var cands []*m.Func
	for _, f := range g.Funcs {
		if f.Ret != nil && f.Ret.Eq(ty) && g.tracerOf(f) == false {
			cands = append(cands, f)
		}
	}
	if len(cands) == 0 {
		return nil
	}
	f := cands[g.intn("func", len(cands))]
	c := g.CallOf(f, d-1)
	g.forgetAll() // the callee may change any global container
	return c
}

func (g *G) tracerOf(f *m.Func) bool {
	for _, t := range g.tracers {
		if t == f {
			return true
		}
	}
	return false
}

// CallOf builds a call of f with generated arguments.
func (g *G) CallOf(f *m.Func, d int) *m.Call {
	c := &m.Call{Fn: f.Name, Ty: f.Ret}
	if c.Ty == nil {
		c.Ty = m.TNone
	}
	if f.Variadic {
		n := g.intn("nvariadic", 4)
		for i := 0; i < n; i++ {
			c.Args = append(c.Args, g.Conv(f.Params[0].Ty, d))
		}
		return c
	}
	for _, p := range f.Params {
		c.Args = append(c.Args, g.Conv(p.Ty, d))
	}
	return c
}

// use returns statements that use (and show) the given variables.
func (g *G) use(label string, vs []*VarInfo) []m.Stmt {
	if !g.Cfg.NoCalls {
		return []m.Stmt{PrintVars(label, vs)}
	}
	var out []m.Stmt
	for _, v := range vs {
		out = append(out, &m.Assign{Target: &m.Var{Name: v.Name, Ty: v.Ty}, Val: &m.Var{Name: v.Name, Ty: v.Ty}})
	}
	return out
}

// Print returns a print statement of the given expressions (wrapped for any).
func Print(args ...m.Expr) *m.CallStmt {
	c := &m.Call{Fn: "print", Ty: m.TNone}
	for _, a := range args {
		c.Args = append(c.Args, m.AsAny(a))
	}
	return &m.CallStmt{C: c}
}

// PrintVars prints a label and the given variables (the observation and the "use" of each).
func PrintVars(label string, vs []*VarInfo) m.Stmt {
	args := []m.Expr{m.StrLit(label)}
	for _, v := range vs {
		args = append(args, &m.Var{Name: v.Name, Ty: v.Ty})
	}
	return Print(args...)
}

func litLen(e m.Expr) (int, []string) {
	switch e := e.(type) {
	case *m.ArrLit:
		return len(e.Elems), nil
	case *m.MapLit:
		return len(e.Keys), append([]string(nil), e.Keys...)
	}
	return -1, nil
}

// Decl generates a declaration of a fresh variable and registers it.
func (g *G) Decl(d int) m.Stmt {
	name := g.name("v")
	shadowed := false
	if g.Cfg.Shadow && len(g.scopes) > 1 && g.chance("shadow", 1, 3) {
		// reuse the name of a variable of an enclosing block (never of the current one)
		local := map[string]bool{}
		for _, v := range g.scopes[len(g.scopes)-1] {
			local[v.Name] = true
		}
		var cands []*VarInfo
		for _, v := range g.Visible() {
			if !local[v.Name] && !v.NoShadow && !v.ReadOnly {
				cands = append(cands, v)
			}
		}
		if len(cands) > 0 {
			name = cands[g.intn("shadowed", len(cands))].Name
			shadowed = true
			g.Shadows++
		}
	}
	_ = shadowed
	if !g.Cfg.NoTyped && g.chance("typed", 1, 4) {
		ty := g.Type(2)
		g.Declare(&VarInfo{Name: name, Ty: ty, Len: -1})
		return &m.Decl{Name: name, Ty: ty, Typed: true}
	}
	ty := g.Type(2)
	var init m.Expr
	if ty.K == m.Any {
		// an inferred declaration has type any only if the initialiser is any-typed
		init = g.leaf(ty, 0)
		if init == nil {
			ty = g.concrete(2)
		}
	}
	if init == nil {
		init = g.Natural(ty, d)
	}
	n, keys := litLen(init)
	g.Declare(&VarInfo{Name: name, Ty: ty, Len: n, Keys: keys})
	return &m.Decl{Name: name, Ty: ty, Init: init}
}

// Assign generates an assignment to a visible variable, element or field; nil if none fits.
func (g *G) Assign(d int) m.Stmt {
	var cands []*VarInfo
	for _, v := range g.Visible() {
		if !v.ReadOnly {
			cands = append(cands, v)
		}
	}
	if len(cands) == 0 {
		return nil
	}
	v := cands[g.intn("target", len(cands))]
	switch {
	case v.Ty.K == m.Arr && v.Len > 0 && g.chance("elem", 1, 2):
		i := g.intn("idx", 2*v.Len) - v.Len
		return &m.Assign{Target: &m.Index{X: g.useVar(v), I: m.NumLit(float64(i)), Ty: v.Ty.Sub}, Val: g.slotVal(v.Ty.Sub, d)}
	case v.Ty.K == m.Map && !g.Cfg.NoMapStore && g.chance("field", 2, 3):
		k := keyPool[g.intn("key", len(keyPool))]
		found := false
		for _, kk := range v.Keys {
			found = found || kk == k
		}
		if !found {
			v.Keys = append(v.Keys, k)
		}
		if !g.Cfg.NoDot && g.chance("dot", 1, 2) {
			return &m.Assign{Target: &m.Dot{X: g.useVar(v), Key: k, Ty: v.Ty.Sub}, Val: g.slotVal(v.Ty.Sub, d)}
		}
		return &m.Assign{Target: &m.Index{X: g.useVar(v), I: m.StrLit(k), Ty: v.Ty.Sub}, Val: g.slotVal(v.Ty.Sub, d)}
	}
	val := g.Conv(v.Ty, d)
	// reassigning a container forgets what we knew about its size and keys
	n, keys := litLen(val)
	if v.Ty.Composite() {
		g.forgetAliases(v, n, keys)
	}
	return &m.Assign{Target: g.useVar(v), Val: val}
}

// slotVal is a value stored into an element or field of an existing container.
// A container reachable from itself through an `any` slot is a cyclic value;
// printing or comparing one overflows the host stack (open finding), so values
// stored into any-typed slots are basic values only. CyclesAvoided counts them.
func (g *G) slotVal(ty *m.Type, d int) m.Expr {
	hasAny := false
	for t := ty; t != nil; t = t.Sub {
		hasAny = hasAny || t.K == m.Any
	}
	if !hasAny {
		return g.Conv(ty, d)
	}
	g.CyclesAvoided++
	if ty.K == m.Any {
		bt := []*m.Type{m.TNum, m.TStr, m.TBool}[g.intn("basic", 3)]
		return m.AsAny(g.Natural(bt, min(d, 2)))
	}
	return g.Literal(ty, 1)
}

func (g *G) forgetAliases(v *VarInfo, n int, keys []string) {
	v.Len, v.Keys = -1, nil
	_ = n
	_ = keys
}

// Block generates up to n statements in a fresh scope and makes sure every
// variable declared in it is used (printed) before the scope closes.
func (g *G) Block(depth int, label string) []m.Stmt {
	return g.BlockTail(depth, label, nil)
}

// BlockTail is Block with extra statements generated inside the block's scope
// after its own statements (e.g. the final return of a function body).
func (g *G) BlockTail(depth int, label string, tail func() []m.Stmt) []m.Stmt {
	g.Push()
	var out []m.Stmt
	if g.Cfg.Markers {
		g.blockID++
		out = append(out, Print(m.StrLit("enter "+label+strconv.Itoa(g.blockID))))
	}
	n := 1 + g.intn("nstmts", g.Cfg.MaxStmts)
	for i := 0; i < n; i++ {
		out = append(out, g.Stmt(depth)...)
	}
	if len(g.scopes[len(g.scopes)-1]) > 0 {
		out = append(out, g.use(label, g.scopes[len(g.scopes)-1])...)
	} else if len(out) == 0 && !g.Cfg.NoCalls {
		out = append(out, Print(m.StrLit(label)))
	}
	if tail != nil {
		out = append(out, tail()...)
	}
	g.Pop()
	return out
}

// Stmt generates one statement (possibly with a preceding helper declaration).
func (g *G) Stmt(depth int) []m.Stmt {
	d := g.Cfg.ExprDepth
	k := g.intn("stmt", 16)
	if g.Cfg.Markers && depth > 0 && g.chance("control", 1, 3) {
		k = 10 + g.intn("controlkind", 4) // control-flow heavy programs
	}
	switch {
	case k < 4:
		return []m.Stmt{g.Decl(d)}
	case k < 7:
		if s := g.Assign(d); s != nil {
			return []m.Stmt{s}
		}
		return []m.Stmt{g.Decl(d)}
	case k == 9 && g.Cfg.Tests:
		if g.chance("test1", 1, 2) {
			return []m.Stmt{&m.CallStmt{C: &m.Call{Fn: "test", Args: []m.Expr{m.AsAny(g.Natural(m.TBool, 1))}, Ty: m.TNone}}}
		}
		ty := g.concrete(1)
		return []m.Stmt{&m.CallStmt{C: &m.Call{Fn: "test", Args: []m.Expr{m.AsAny(g.Natural(ty, 1)), m.AsAny(g.Natural(ty, 1))}, Ty: m.TNone}}}
	case k < 10 && g.Cfg.NoCalls:
		if s := g.Assign(d); s != nil {
			return []m.Stmt{s}
		}
		return []m.Stmt{g.Decl(d)}
	case k < 10:
		n := 1 + g.intn("nprint", 3)
		var args []m.Expr
		for i := 0; i < n; i++ {
			args = append(args, g.Conv(m.TAny, d))
		}
		return []m.Stmt{Print(args...)}
	case k == 10 && depth > 0:
		return []m.Stmt{g.If(depth)}
	case k == 11 && depth > 0 && g.Cfg.Loops:
		return g.While(depth)
	case k == 12 && depth > 0 && g.Cfg.Loops:
		return []m.Stmt{g.ForNum(depth)}
	case k == 13 && depth > 0 && g.Cfg.Loops:
		return []m.Stmt{g.ForIn(depth)}
	case k == 14 && g.Cfg.Funcs:
		var procs []*m.Func
		for _, f := range g.Funcs {
			if (f.Ret == nil || f.Ret.K == m.None) && !g.tracerOf(f) {
				procs = append(procs, f)
			}
		}
		if len(procs) > 0 {
			c := g.CallOf(procs[g.intn("proc", len(procs))], d)
			g.forgetAll()
			return []m.Stmt{&m.CallStmt{C: c}}
		}
	case k == 15 && g.Cfg.Maps && g.Cfg.Builtins:
		for _, v := range g.Visible() {
			if v.Ty.K == m.Map && !v.ReadOnly {
				key := keyPool[g.intn("key", len(keyPool))]
				var keys []string
				for _, kk := range v.Keys {
					if kk != key {
						keys = append(keys, kk)
					}
				}
				v.Keys = keys
				return []m.Stmt{&m.CallStmt{C: &m.Call{Fn: "del", Args: []m.Expr{g.useVar(v), m.StrLit(key)}, Ty: m.TNone}}}
			}
		}
	}
	if g.Cfg.NoCalls {
		return []m.Stmt{g.Decl(d)}
	}
	return []m.Stmt{Print(g.Conv(m.TAny, d))}
}

// conservative: entering a block whose execution is conditional or repeated
// invalidates what we know about container sizes afterwards.
func (g *G) forgetAll() {
	for _, sc := range g.scopes {
		for _, v := range sc {
			if v.Ty.Composite() {
				v.Len, v.Keys = -1, nil
			}
		}
	}
}

// If generates an if / else if / else statement.
func (g *G) If(depth int) m.Stmt {
	s := &m.If{}
	n := 1 + g.intn("nbranches", 3)
	fallsThrough := false
	exit := func() []m.Stmt {
		if g.inLoop > 0 && g.chance("break", 1, 3) {
			g.Breaks++
			return []m.Stmt{&m.Break{}}
		}
		if g.Cfg.EarlyExit && g.retType != nil && g.chance("earlyreturn", 1, 2) {
			g.EarlyReturns++
			if g.retType.K == m.None {
				return []m.Stmt{&m.Return{}}
			}
			return []m.Stmt{&m.Return{Val: g.Conv(g.retType, 1)}}
		}
		return nil
	}
	for i := 0; i < n; i++ {
		s.Conds = append(s.Conds, g.Natural(m.TBool, g.Cfg.ExprDepth))
		g.forgetAll()
		body := g.BlockTail(depth-1, "if", func() []m.Stmt {
			t := exit()
			if t == nil {
				fallsThrough = true
			}
			return t
		})
		s.Blocks = append(s.Blocks, body)
	}
	if g.chance("else", 1, 2) {
		g.forgetAll()
		if fallsThrough {
			// the else branch may leave too, as long as some branch falls through: the statement
			// as a whole does not always terminate, what follows it stays reachable
			s.Else = g.BlockTail(depth-1, "else", func() []m.Stmt {
				t := exit()
				if t != nil {
					g.TermChains++
				}
				return t
			})
		} else {
			s.Else = g.Block(depth-1, "else")
		}
	}
	g.forgetAll()
	return s
}

// While generates a counter-guarded while loop (declaration of the counter included).
func (g *G) While(depth int) []m.Stmt {
	cnt := g.name("w")
	g.Declare(&VarInfo{Name: cnt, Ty: m.TNum, ReadOnly: true, Len: -1})
	limit := float64(1 + g.intn("iters", 4))
	cond := m.Expr(&m.Binary{Op: "<", L: &m.Var{Name: cnt, Ty: m.TNum}, R: m.NumLit(limit), Ty: m.TBool})
	if !g.Cfg.NoLogic && g.chance("extracond", 1, 2) {
		cond = &m.Binary{Op: "and", L: cond, R: g.Natural(m.TBool, 2), Ty: m.TBool}
	}
	g.inLoop++
	g.forgetAll()
	body := g.Block(depth-1, "while")
	g.inLoop--
	g.forgetAll()
	inc := &m.Assign{Target: &m.Var{Name: cnt, Ty: m.TNum}, Val: &m.Binary{Op: "+", L: &m.Var{Name: cnt, Ty: m.TNum}, R: m.NumLit(1), Ty: m.TNum}}
	body = append([]m.Stmt{inc}, body...)
	if g.Cfg.IterMarks {
		body = append([]m.Stmt{Print(m.StrLit("@iter"))}, body...)
	}
	return []m.Stmt{&m.Decl{Name: cnt, Ty: m.TNum, Init: m.NumLit(0)}, &m.While{Cond: cond, Body: body}}
}

// ForNum generates a numeric range loop with a small, exactly representable range.
func (g *G) ForNum(depth int) m.Stmt {
	s := &m.ForNum{}
	starts := []float64{0, 1, -2, 0.5, 3}
	steps := []float64{1, 2, -1, 0.5, -0.5, 0}
	start := starts[g.intn("start", len(starts))]
	step := steps[g.intn("step", len(steps))]
	if g.Cfg.NoZeroStep && step == 0 {
		step = 1
	}
	span := float64(g.intn("span", 4))
	stop := start + span*step
	if step == 0 {
		stop = start + span
	}
	switch {
	case step == 0:
		g.RangeKinds["zero-step"]++
	case span == 0:
		g.RangeKinds["empty"]++
	case step < 0:
		g.RangeKinds["negative-step"]++
	case step != float64(int(step)) || start != float64(int(start)):
		g.RangeKinds["fractional"]++
	default:
		g.RangeKinds["plain"]++
	}
	if g.chance("reversed", 1, 8) {
		// bounds on the wrong side of the step direction: an empty range
		g.RangeKinds["reversed"]++
		s.Start, s.Stop, s.Step = m.NumLit(stop+step), m.NumLit(start), m.NumLit(step)
		if step == 0 {
			s.Step = m.NumLit(1)
			s.Start, s.Stop = m.NumLit(3), m.NumLit(1)
		}
		return g.forBody(s, depth)
	}
	switch g.intn("rangeform", 3) {
	case 0:
		if start == 0 && step == 1 {
			s.Stop = m.NumLit(stop)
		} else {
			s.Stop = m.NumLit(float64(g.intn("n", 4)))
		}
	case 1:
		s.Start, s.Stop = m.NumLit(start), m.NumLit(start+span)
	default:
		s.Start, s.Stop, s.Step = m.NumLit(start), m.NumLit(stop), m.NumLit(step)
	}
	return g.forBody(s, depth)
}

func (g *G) forBody(s *m.ForNum, depth int) m.Stmt {
	g.Push()
	if g.chance("loopvar", 3, 4) {
		s.V = g.loopVarName("i")
		g.Declare(&VarInfo{Name: s.V, Ty: m.TNum, ReadOnly: true, NoShadow: true, Len: -1})
	}
	g.inLoop++
	g.forgetAll()
	s.Body = g.Block(depth-1, "for")
	g.inLoop--
	g.forgetAll()
	vs := g.Pop()
	if len(vs) > 0 {
		s.Body = append(g.use("i", vs), s.Body...)
	}
	if g.Cfg.IterMarks {
		s.Body = append([]m.Stmt{Print(m.StrLit("@iter"))}, s.Body...)
	}
	return s
}

// ForIn generates a loop over an array, string or map.
func (g *G) ForIn(depth int) m.Stmt {
	s := &m.ForIn{}
	var vt *m.Type
	switch g.intn("iterkind", 3) {
	case 0:
		et := g.concrete(1)
		s.X = g.Natural(m.ArrOf(et), 2)
		vt = et
	case 1:
		s.X = g.Natural(m.TStr, 2)
		vt = m.TStr
	default:
		if g.Cfg.Maps {
			s.X = g.Natural(m.MapOf(g.concrete(1)), 2)
		} else {
			s.X = g.Natural(m.TStr, 2)
		}
		vt = m.TStr
	}
	g.Push()
	if g.chance("loopvar", 3, 4) {
		s.V = g.loopVarName("e")
		g.Declare(&VarInfo{Name: s.V, Ty: vt, ReadOnly: true, NoShadow: true, Len: -1})
	}
	g.inLoop++
	g.forgetAll()
	s.Body = g.Block(depth-1, "forin")
	g.inLoop--
	g.forgetAll()
	vs := g.Pop()
	if len(vs) > 0 {
		s.Body = append(g.use("e", vs), s.Body...)
	}
	if g.Cfg.IterMarks {
		s.Body = append([]m.Stmt{Print(m.StrLit("@iter"))}, s.Body...)
	}
	return s
}

// Func generates a user function with a body and registers it.
func (g *G) Func(depth int) *m.Func {
	f := &m.Func{Name: g.name("f")}
	np := g.intn("nparams", 4)
	if g.chance("variadic", 1, 6) {
		f.Variadic = true
		np = 1
	}
	if g.chance("hasret", 1, 2) {
		f.Ret = g.Type(1)
	} else {
		f.Ret = m.TNone
	}
	saved := g.scopes
	// function bodies see only globals (outermost scope) and their parameters
	g.scopes = [][]*VarInfo{saved[0], nil}
	for i := 0; i < np; i++ {
		p := m.Param{Name: g.name("p"), Ty: g.Type(1)}
		f.Params = append(f.Params, p)
		ty := p.Ty
		if f.Variadic {
			ty = m.ArrOf(p.Ty)
		}
		g.Declare(&VarInfo{Name: p.Name, Ty: ty, Len: -1, NoShadow: true})
	}
	wasFunc, wasLoop, wasRet := g.inFunc, g.inLoop, g.retType
	g.inFunc, g.inLoop, g.retType = true, 0, f.Ret
	g.forgetAll()
	// register before generating the body so that the body may recurse? no: keep
	// recursion out of the general generator (termination); C10 builds its own.
	params := g.scopes[1]
	f.Body = g.BlockTail(depth, "fn", func() []m.Stmt {
		if f.Ret.K == m.None {
			return nil
		}
		if g.chance("returnchain", 1, 4) {
			// the function ends in an if / else if / else chain every branch of which returns
			g.TermChains++
			chain := &m.If{}
			for i, n := 0, 1+g.intn("chainbranches", 3); i < n; i++ {
				chain.Conds = append(chain.Conds, g.Natural(m.TBool, 1))
				chain.Blocks = append(chain.Blocks, []m.Stmt{Print(m.StrLit("branch " + strconv.Itoa(i))), &m.Return{Val: g.Conv(f.Ret, 1)}})
			}
			chain.Else = []m.Stmt{&m.Return{Val: g.Conv(f.Ret, 1)}}
			return []m.Stmt{chain}
		}
		return []m.Stmt{&m.Return{Val: g.Conv(f.Ret, 2)}}
	})
	f.Body = append([]m.Stmt{PrintVars(f.Name, params)}, f.Body...)
	if g.Cfg.IterMarks {
		f.Body = append([]m.Stmt{Print(m.StrLit("@call"))}, f.Body...)
	}
	g.inFunc, g.inLoop, g.retType = wasFunc, wasLoop, wasRet
	g.scopes = saved
	g.Funcs = append(g.Funcs, f)
	return f
}

// Program generates a whole program: functions first registered so that calls
// can precede definitions, then top-level statements; definitions are placed
// at random positions between top-level statements.
func (g *G) Program() *m.Program {
	p := &m.Program{}
	// globals first, so functions can use them
	nGlobals := 1 + g.intn("nglobals", 3)
	var top []m.Stmt
	for i := 0; i < nGlobals; i++ {
		top = append(top, g.Decl(2))
	}
	var funcs []*m.Func
	if g.Cfg.Funcs {
		nf := g.intn("nfuncs", 3)
		for i := 0; i < nf; i++ {
			funcs = append(funcs, g.Func(g.Cfg.BlockDepth-1))
		}
	}
	n := 2 + g.intn("ntop", g.Cfg.MaxStmts)
	for i := 0; i < n; i++ {
		top = append(top, g.Stmt(g.Cfg.BlockDepth)...)
	}
	if g.Cfg.Recursion {
		for _, c := range g.RecFuncs() {
			at := nGlobals + g.intn("recpos", len(top)+1-nGlobals)
			top = append(top[:at:at], append([]m.Stmt{Print(m.StrLit("rec"), c)}, top[at:]...)...)
		}
		funcs = append(funcs, g.recs...)
	}
	top = append(top, g.use("end", g.scopes[0])...)
	// tracers and functions: anywhere at top level (calls may precede definitions)
	for _, f := range g.Funcs {
		isGenerated := false
		for _, gf := range funcs {
			isGenerated = isGenerated || gf == f
		}
		if !isGenerated {
			funcs = append(funcs, f)
		}
	}
	pos := make([]int, len(funcs))
	for i := range funcs {
		pos[i] = g.intn("funcpos", len(top)+1)
		if pos[i] < nGlobals && g.usesGlobals(funcs[i]) {
			// a function body may only mention globals declared textually before it
			pos[i] = nGlobals
		}
	}
	for i := 0; i <= len(top); i++ {
		for j, f := range funcs {
			if pos[j] == i {
				p.Items = append(p.Items, m.Item{F: f})
			}
		}
		if i < len(top) {
			p.Items = append(p.Items, m.Item{S: top[i]})
		}
	}
	return p
}

func (g *G) usesGlobals(*m.Func) bool { return true }

// RecFuncs adds a recursive function and a mutually recursive pair; it returns
// calls to them (to be printed by the caller).
func (g *G) RecFuncs() []m.Expr {
	n := &m.Var{Name: "n", Ty: m.TNum}
	rec := &m.Func{Name: g.name("rec"), Params: []m.Param{{Name: "n", Ty: m.TNum}}, Ret: m.TNum}
	base := m.NumLit(float64(g.intn("base", 3)))
	recCall := &m.Call{Fn: rec.Name, Args: []m.Expr{&m.Binary{Op: "-", L: n, R: m.NumLit(1), Ty: m.TNum}}, Ty: m.TNum}
	var combine m.Expr
	switch g.intn("combine", 3) {
	case 0:
		combine = &m.Binary{Op: "+", L: recCall, R: n, Ty: m.TNum}
	case 1:
		combine = &m.Binary{Op: "*", L: n, R: recCall, Ty: m.TNum}
	default:
		combine = &m.Binary{Op: "-", L: recCall, R: &m.Binary{Op: "*", L: n, R: m.NumLit(2), Ty: m.TNum}, Ty: m.TNum}
	}
	// a local that must be private to each activation
	rec.Body = []m.Stmt{
		&m.Decl{Name: "local", Ty: m.TNum, Init: &m.Binary{Op: "*", L: n, R: m.NumLit(10), Ty: m.TNum}},
		Print(m.StrLit(rec.Name), n),
		&m.If{Conds: []m.Expr{&m.Binary{Op: "<=", L: n, R: m.NumLit(0), Ty: m.TBool}}, Blocks: [][]m.Stmt{{&m.Return{Val: base}}}},
		&m.Decl{Name: "r", Ty: m.TNum, Init: combine},
		Print(m.StrLit("back in"), n, &m.Var{Name: "local", Ty: m.TNum}),
		&m.Return{Val: &m.Var{Name: "r", Ty: m.TNum}},
	}
	even := &m.Func{Name: g.name("even"), Params: []m.Param{{Name: "n", Ty: m.TNum}}, Ret: m.TBool}
	odd := &m.Func{Name: g.name("odd"), Params: []m.Param{{Name: "n", Ty: m.TNum}}, Ret: m.TBool}
	nm1 := &m.Binary{Op: "-", L: n, R: m.NumLit(1), Ty: m.TNum}
	even.Body = []m.Stmt{
		Print(m.StrLit(even.Name), n),
		&m.If{Conds: []m.Expr{&m.Binary{Op: "==", L: n, R: m.NumLit(0), Ty: m.TBool}}, Blocks: [][]m.Stmt{{&m.Return{Val: m.BoolLit(true)}}}},
		&m.Return{Val: &m.Call{Fn: odd.Name, Args: []m.Expr{nm1}, Ty: m.TBool}},
	}
	odd.Body = []m.Stmt{
		Print(m.StrLit(odd.Name), n),
		&m.If{Conds: []m.Expr{&m.Binary{Op: "==", L: n, R: m.NumLit(0), Ty: m.TBool}}, Blocks: [][]m.Stmt{{&m.Return{Val: m.BoolLit(false)}}}},
		&m.Return{Val: &m.Call{Fn: even.Name, Args: []m.Expr{nm1}, Ty: m.TBool}},
	}
	g.recs = append(g.recs, rec, even, odd)
	return []m.Expr{
		&m.Call{Fn: rec.Name, Args: []m.Expr{m.NumLit(float64(1 + g.intn("recdepth", 5)))}, Ty: m.TNum},
		&m.Call{Fn: even.Name, Args: []m.Expr{m.NumLit(float64(g.intn("parity", 6)))}, Ty: m.TBool},
	}
}

// EventParams is the documented payload of each event.
var EventParams = map[string][]m.Param{
	"key":     {{Name: "k", Ty: m.TStr}},
	"down":    {{Name: "x", Ty: m.TNum}, {Name: "y", Ty: m.TNum}},
	"up":      {{Name: "x", Ty: m.TNum}, {Name: "y", Ty: m.TNum}},
	"move":    {{Name: "x", Ty: m.TNum}, {Name: "y", Ty: m.TNum}},
	"animate": {{Name: "ms", Ty: m.TNum}},
	"input":   {{Name: "id", Ty: m.TStr}, {Name: "val", Ty: m.TStr}},
}

// Handler generates an event handler with one of the accepted signatures:
// all parameters named, some replaced by "_", or no parameters at all.
func (g *G) Handler(event string, depth int) *m.Handler {
	hd := &m.Handler{Event: event}
	saved := g.scopes
	g.scopes = [][]*VarInfo{saved[0], nil}
	if !g.chance("noparams", 1, 3) {
		for _, p := range EventParams[event] {
			name := g.name("e")
			if g.Cfg.Shadow && len(saved[0]) > 0 && g.chance("param-shadows-global", 1, 3) {
				// a parameter may carry the name of a global: inside the handler it hides the global
				cand := saved[0][g.intn("shadowedglobal", len(saved[0]))].Name
				taken := false
				for _, q := range hd.Params {
					taken = taken || q.Name == cand
				}
				if !taken {
					name = cand
					g.Shadows++
				}
			}
			if g.chance("underscore", 1, 3) {
				name = "_"
			} else {
				g.Declare(&VarInfo{Name: name, Ty: p.Ty, Len: -1, NoShadow: true})
			}
			hd.Params = append(hd.Params, m.Param{Name: name, Ty: p.Ty})
		}
	}
	wasFunc, wasLoop, wasRet := g.inFunc, g.inLoop, g.retType
	g.inFunc, g.inLoop, g.retType = true, 0, m.TNone
	g.forgetAll()
	params := g.scopes[1]
	hd.Body = g.Block(depth, "on-"+event)
	pv := []*VarInfo{}
	pv = append(pv, params...)
	hd.Body = append([]m.Stmt{PrintVars("on "+event, pv)}, hd.Body...)
	g.inFunc, g.inLoop, g.retType = wasFunc, wasLoop, wasRet
	g.scopes = saved
	return hd
}

// loopVarName returns a fresh name or, with shadowing enabled, the name of a
// visible variable of an enclosing scope (a loop variable lives in its own scope).
func (g *G) loopVarName(prefix string) string {
	if g.Cfg.Shadow && !g.Cfg.NoLoopVarShadow && g.chance("shadow-loopvar", 1, 4) {
		var cands []*VarInfo
		for _, v := range g.Visible() {
			if !v.ReadOnly && !v.NoShadow {
				cands = append(cands, v)
			}
		}
		// the scope pushed for the loop variable is still empty, so every visible name is an outer one
		if len(cands) > 0 {
			g.Shadows++
			return cands[g.intn("shadowed", len(cands))].Name
		}
	}
	return g.name(prefix)
}
