// Package p08 decides C08: parsing, formatting and running are deterministic.
package p08

import (
	"bytes"
	"context"
	"fmt"
	"os"
	"os/exec"
	"path/filepath"
	"strconv"
	"strings"
	"testing"
	"time"

	"pgregory.net/rapid"
	"verif/harness/corpus"
	"verif/harness/eng"
	"verif/harness/gen"
	"verif/harness/h"
	"verif/harness/m"
	"verif/harness/rec"
	"verif/harness/srcmut"
)

// Case is a source text, inputs and events; R repetitions must agree byte for byte.
type Case struct {
	Src    string   `json:"src"`
	Inputs []string `json:"inputs,omitempty"`
	Events []string `json:"events,omitempty"` // key events delivered after the run
	R      int      `json:"repetitions"`
	CLI    bool     `json:"cli,omitempty"`
	Seed   int64    `json:"rand_seed,omitempty"` // --rand-seed of the fresh-process runs (0: 7)
	Origin string   `json:"origin"`
}

type observation struct {
	errs, format, trace, outcome string
}

func observe(c Case) (observation, *rec.Outcome) {
	var o observation
	prog, errs, crash := rec.SafeParse(c.Src)
	if crash != nil {
		return o, crash
	}
	if errs != nil {
		o.errs = errs.Error()
		return o, nil
	}
	o.format = prog.Format()
	// "repeating ... reproduces": formatting the same parsed program again is a repetition too
	func() {
		defer func() {
			if r := recover(); r != nil {
				o.format += "\x1eformat-again-panics:" + fmt.Sprint(r)
			}
		}()
		if again := prog.Format(); again != o.format {
			o.format += "\x1eformat-again-differs:" + again
		}
	}()
	if rec.UnboundedRepetition(prog) {
		// a repetition with a large count exhausts the host's memory in one allocation (C02's finding F53):
		// such a program is parsed and formatted here, not run
		o.outcome = "budget"
		return o, nil
	}
	res := rec.RunProg(prog, rec.Opts{Inputs: c.Inputs, Fuel: 30000, MaxLog: 5000, RandSeed: 7}, nil)
	if res.Out.Class == "gopanic" {
		return o, &res.Out
	}
	o.outcome = res.Out.String()
	if res.Out.Class == "ok" {
		for _, k := range c.Events {
			if len(res.Ev.EventHandlerNames) == 0 {
				break
			}
			has := false
			for _, n := range res.Ev.EventHandlerNames {
				has = has || n == "key"
			}
			if !has {
				break
			}
			out := res.Event("key", k)
			o.outcome += "|" + out.String()
			if out.Class != "ok" {
				break
			}
		}
	}
	o.trace = strings.Join(res.Trace, "\x1e")
	if res.FuelOut || res.TooMuch {
		// where exactly the budget cuts a run is the harness's business, not a property of evy
		o.trace, o.outcome = "", "budget"
	}
	return o, nil
}

func firstDiff(a, b string) string {
	i := 0
	for i < len(a) && i < len(b) && a[i] == b[i] {
		i++
	}
	lo := max(i-60, 0)
	return fmt.Sprintf("at byte %d: %q vs %q", i, a[lo:min(i+80, len(a))], b[lo:min(i+80, len(b))])
}

func checkCase(c Case) *h.Failure {
	mk := func(kind, detail string) *h.Failure {
		return &h.Failure{Kind: kind, Detail: detail, Src: c.Src, Case: c}
	}
	first, crash := observe(c)
	if crash != nil {
		return nil // crashes are C02/C03's business
	}
	if i := strings.Index(first.format, "\x1eformat-again-"); i >= 0 {
		return mk("format-differs", "formatting the same parsed program a second time gives a different result: "+first.format[i+1:])
	}
	for i := 1; i < max(c.R, 2); i++ {
		o, crash := observe(c)
		if crash != nil {
			return nil
		}
		if o.outcome == "budget" || first.outcome == "budget" {
			// a budget of the harness (fuel, live heap) cut one of the runs; the heap budget depends on
			// what the process did before, so it may cut one repetition and not another: no verdict
			return nil
		}
		switch {
		case o.errs != first.errs:
			return mk("parse-errors-differ", fmt.Sprintf("repetition %d reports different parse errors %s", i+1, firstDiff(first.errs, o.errs)))
		case strings.Contains(o.format, "\x1eformat-again-"):
			return mk("format-differs", "formatting the same parsed program a second time gives a different result: "+o.format[strings.Index(o.format, "\x1eformat-again-")+1:])
		case o.format != first.format:
			return mk("format-differs", fmt.Sprintf("repetition %d formats differently %s", i+1, firstDiff(first.format, o.format)))
		case o.trace != first.trace:
			return mk("trace-differs", fmt.Sprintf("repetition %d has different effects %s", i+1, firstDiff(first.trace, o.trace)))
		case o.outcome != first.outcome:
			return mk("outcome-differs", fmt.Sprintf("repetition %d ends differently: %q vs %q", i+1, first.outcome, o.outcome))
		}
	}
	if c.CLI && first.outcome != "budget" { // a run that needs the fuel to end would never end in a real process
		return cli(c)
	}
	return nil
}

func cli(c Case) *h.Failure {
	bin := filepath.Join(os.Getenv("VERIF_BUILD"), "evy")
	if _, err := os.Stat(bin); err != nil {
		return nil
	}
	dir, _ := os.MkdirTemp("", "verif-c08-")
	defer os.RemoveAll(dir)
	f := filepath.Join(dir, "p.evy")
	os.WriteFile(f, []byte(c.Src), 0o644) //nolint:errcheck
	var first string
	// one budget for the three runs; a run that does not finish gives no verdict
	ctx, cancel := context.WithTimeout(context.Background(), 60*time.Second)
	defer cancel()
	for i := 0; i < 3; i++ {
		seed := c.Seed
		if seed == 0 {
			seed = 7 // 0 asks for a random seed (evy run --help), every other value fixes the sequence
		}
		cmd := exec.CommandContext(ctx, bin, "run", "--skip-sleep", "--rand-seed="+strconv.FormatInt(seed, 10), "--svg-out", "-", f)
		cmd.Stdin = strings.NewReader(strings.Join(c.Inputs, "\n") + "\n\n\n\n")
		var so, se bytes.Buffer
		cmd.Stdout, cmd.Stderr = &so, &se
		err := cmd.Run()
		if ctx.Err() != nil {
			return nil // did not finish: no verdict
		}
		code := 0
		if err != nil {
			code = -1
			if ee, ok := err.(*exec.ExitError); ok {
				code = ee.ExitCode()
			}
		}
		if strings.Contains(se.String(), "goroutine 1 [") {
			return nil // host crash: C02
		}
		obs := fmt.Sprintf("exit=%d\x1estdout=%s\x1estderr=%s", code, so.String(), se.String())
		if i == 0 {
			first = obs
		} else if obs != first {
			return &h.Failure{Kind: "process-runs-differ", Detail: fmt.Sprintf("fresh `evy run --rand-seed=%d --svg-out -` processes differ ", seed) + firstDiff(first, obs), Src: c.Src, Case: c}
		}
	}
	return nil
}

var vals = []string{"1", "\"s\"", "true", "[1]", "[\"s\"]", "[true]", "[]", "{}", "{a:1}", "{a:\"s\"}", "[[1]]", "[[]]", "x", "y", "z", "(f 1)", "(f 2)", "(f 3)", "[x]", "{k:y}"}

// families of values whose common type depends on how the element types are combined
var families = [][]string{
	{"[1]", "[]", "x", "[z]", "[2 3]", "x", "[]"},
	{"y", "{}", "{a:\"s\"}", "{k:\"w\"}", "y", "{}"},
	{"[[1]]", "[[]]", "[x]", "[]", "[[z]]"},
	{"1", "z", "(f 1)", "(f 2)", "2"},
}

var keyNames = []string{"a", "b", "c", "d", "e", "f", "g", "h"}
var fontProps = []string{"family:\"serif\"", "size:3", "weight:700", "style:\"italic\"", "baseline:\"top\"", "align:\"center\"", "letterspacing:1",
	"bogus1:1", "bogus2:\"x\"", "size:\"big\"", "weight:0", "align:\"up\"", "family:1", "zzz:true"}

// operations that consume or produce map values; $m is a map variable with many keys, $d a fresh name
var mapOps = []string{
	"$d := [$m] * 2\nprint $d\n",
	"$d := [$m $m] * 1\nprint $d[0] $d[1]\n",
	"$d := [[$m]] * 2\nprint $d\n",
	"$d := [{inner:$m}] * 2\nprint $d\n",
	"$d := [$m] + [$m]\nprint $d\n",
	"$d := [$m][:]\nprint $d\n",
	"$d := {outer:$m other:$m}\nprint $d\n",
	"$d := sprint $m\nprint $d\n",
	"$d := sprintf \"%v|%v\" $m [$m]\nprint $d\n",
	"$d:any\n$d = $m\nprint $d ($d == $m)\n",
	"$d:any\n$d = [$m] * 2\nprint $d\n",
	"$d:[]any\n$d = [$m 1] * 2\nprint $d\n",
	"for $d := range $m\n    print $d $m[$d]\nend\n",
	"$d := $m\n$d.zz = 99\ndel $d \"a\"\nprint $d (len $d) (has $d \"b\")\n",
	"$d := $m == $m\nprint $d ([$m] == [$m] * 1)\n",
	"$d := (mapid $m)\nprint $d\n",
	"$d := [(mapid $m)] * 2\nprint $d\n",
	"$d := typeof [$m]\nprint $d\n",
	"test [$m] ([$m] * 1)\n$d := 1\nprint $d\n",
	"test $m $m\n$d := 2\nprint $d\n",
}

// mapSites builds a program around the places where evy keeps things in Go maps.
func mapSites(t *rapid.T) (string, []string) {
	var sb strings.Builder
	var classes []string
	sb.WriteString("x := [2]\ny := {k:\"v\"}\nz := 5\nprint x y z\nfunc f:num n:num\n    print \"f\" n\n    return n\nend\nfunc mapid:{}num mp:{}num\n    return mp\nend\n")
	n := rapid.IntRange(1, 4).Draw(t, "nsites")
	unusedDeclared := 0
	for i := 0; i < n; i++ {
		switch rapid.IntRange(0, 6).Draw(t, "site") {
		case 0: // map literal with many pairs
			k := rapid.IntRange(3, 8).Draw(t, "npairs")
			pool := vals
			if rapid.Bool().Draw(t, "family") {
				pool = families[rapid.IntRange(0, len(families)-1).Draw(t, "fam")]
			}
			sb.WriteString(fmt.Sprintf("m%d := {", i))
			for j := 0; j < k; j++ {
				if j > 0 {
					sb.WriteString(" ")
				}
				sb.WriteString(keyNames[j] + ":" + rapid.SampledFrom(pool).Draw(t, "val"))
			}
			sb.WriteString(fmt.Sprintf("}\nprint (typeof m%d) m%d\n", i, i))
			classes = append(classes, "site:map-literal")
		case 1: // array literal with mixed elements
			k := rapid.IntRange(2, 6).Draw(t, "nelems")
			sb.WriteString(fmt.Sprintf("a%d := [", i))
			for j := 0; j < k; j++ {
				if j > 0 {
					sb.WriteString(" ")
				}
				sb.WriteString(rapid.SampledFrom(vals).Draw(t, "val"))
			}
			sb.WriteString(fmt.Sprintf("]\nprint (typeof a%d) a%d\n", i, i))
			classes = append(classes, "site:array-literal")
		case 2: // several unused variables in one scope
			k := rapid.IntRange(2, 6).Draw(t, "nunused")
			if rapid.Bool().Draw(t, "inblock") {
				sb.WriteString("if true\n")
				for j := 0; j < k; j++ {
					sb.WriteString(fmt.Sprintf("    u%d_%d := %d\n", i, j, j))
				}
				sb.WriteString("end\n")
			} else {
				for j := 0; j < k; j++ {
					sb.WriteString(fmt.Sprintf("u%d_%d := %d\n", i, j, j))
				}
			}
			unusedDeclared += k
			classes = append(classes, "site:unused-vars")
		case 3: // font with several properties
			k := rapid.IntRange(2, 5).Draw(t, "nprops")
			seen := map[string]bool{}
			sb.WriteString("font {")
			for j := 0; j < k; j++ {
				p := rapid.SampledFrom(fontProps).Draw(t, "prop")
				name := p[:strings.Index(p, ":")]
				if seen[name] {
					continue
				}
				seen[name] = true
				sb.WriteString(p + " ")
			}
			sb.WriteString("}\ntext \"t\"\n")
			classes = append(classes, "site:font-props")
		case 5: // a map with many keys taken through every operation that handles map values
			k := rapid.IntRange(3, 8).Draw(t, "npairs")
			sb.WriteString(fmt.Sprintf("mm%d := {", i))
			for j := 0; j < k; j++ {
				sb.WriteString(fmt.Sprintf("%s:%d ", keyNames[(j*3+i)%len(keyNames)], j))
			}
			sb.WriteString("}\n")
			mv := fmt.Sprintf("mm%d", i)
			nops := rapid.IntRange(1, 5).Draw(t, "nmapops")
			for j := 0; j < nops; j++ {
				d := fmt.Sprintf("d%d_%d", i, j)
				op := rapid.SampledFrom(mapOps).Draw(t, "mapop")
				sb.WriteString(strings.NewReplacer("$m", mv, "$d", d).Replace(op))
			}
			sb.WriteString("print " + mv + "\n")
			classes = append(classes, "site:map-operations")
		default: // several handlers
			for _, hd := range []string{"on key k:string\n    print \"key\" k (rand 100)\nend\n", "on down\n    print \"down\"\nend\n", "on animate\n    print \"tick\"\nend\n"} {
				if !strings.Contains(sb.String(), hd[:7]) {
					sb.WriteString(hd)
				}
			}
			sb.WriteString("print (rand 10) (rand1) (read)\n")
			classes = append(classes, "site:handlers-rand-read")
		}
	}
	return sb.String(), classes
}

func TestProp(t *testing.T) {
	if h.ReplayPath() != "" {
		t.Skip("replay run")
	}
	ctx := h.Setup(t, "C08")
	all := corpus.All()
	R := 12
	cliBudget, ncli := 40, 0
	if ctx.Thorough() {
		R, cliBudget = 40, 300
	}
	rapid.Check(t, func(t *rapid.T) {
		mode := rapid.SampledFrom([]string{"mapsites", "mapsites", "mapsites", "model", "mutant", "mutant", "corpus"}).Draw(t, "mode")
		c := Case{R: R, Origin: mode, Inputs: []string{"in1", "2"}, Events: []string{"a", "b"}}
		var classes []string
		switch mode {
		case "mapsites":
			c.Src, classes = mapSites(t)
		case "model":
			cfg := gen.Default
			cfg.Tracers = true
			cfg.ExprDepth = 1 + rapid.IntRange(0, 2).Draw(t, "exprdepth")
			g := gen.New(t, cfg)
			c.Src, _ = m.Render(g.Program(), eng.RapidLayout{T: t, Calm: true})
			if strings.Contains(c.Src, "{") {
				classes = append(classes, "site:map-literal")
			}
		case "mutant":
			p := all[rapid.IntRange(0, len(all)-1).Draw(t, "prog")]
			q := all[rapid.IntRange(0, len(all)-1).Draw(t, "other")]
			c.Src, _ = srcmut.Mutate(t, srcmut.Window(t, p.Src, 50), srcmut.Window(t, q.Src, 20), rapid.IntRange(1, 3).Draw(t, "k"))
			c.Origin = "mutant:" + p.Name
		default:
			p := all[rapid.IntRange(0, len(all)-1).Draw(t, "prog")]
			c.Src, c.Origin = p.Src, "corpus:"+p.Name
		}
		if ncli < cliBudget && rapid.IntRange(0, 25).Draw(t, "cli") == 0 {
			c.CLI = true
			c.Seed = rapid.SampledFrom([]int64{7, 1, -1, -7, 1 << 62, -1 << 63, 2147483648, 42}).Draw(t, "randseed")
			ncli++
			ctx.Rec.Add("fresh_process_cases", 1)
		}
		done := h.Watch(c.Src, 15*time.Minute) // last resort only: every part of a case has its own budget
		fl := checkCase(c)
		done()
		_, errs, _ := rec.SafeParse(c.Src)
		if errs != nil {
			classes = append(classes, "rejected")
			if len(errs) >= 2 {
				classes = append(classes, "rejected:multi-error")
			}
		} else {
			classes = append(classes, "accepted")
		}
		nontrivial := false
		for _, cl := range classes {
			nontrivial = nontrivial || strings.HasPrefix(cl, "site:") || cl == "rejected:multi-error"
		}
		ctx.Rec.Case(nontrivial, c.Src, append(classes, "mode:"+mode)...)
		ctx.Rec.Add("repetitions", c.R)
		if nontrivial && ctx.Rec.WantSample() && len(c.Src) < 600 && mode == "mapsites" {
			ctx.Rec.Sample(map[string]any{"origin": c.Origin, "src": c.Src, "repetitions": c.R})
		}
		ctx.Report(t, fl)
	})
}

func TestReplay(t *testing.T) {
	path := h.ReplayPath()
	if path == "" {
		t.Skip("no replay requested")
	}
	ctx := h.Setup(t, "C08")
	var c Case
	if _, err := h.LoadReplay(path, &c); err != nil {
		t.Fatalf("cannot load replay: %v", err)
	}
	if c.R < 40 {
		c.R = 40
	}
	ctx.FinishReplay(t, checkCase(c))
}
