// Package p19 decides C19: SVG output is well formed and shows exactly what was drawn.
package p19

import (
	"bytes"
	"context"
	"encoding/xml"
	"fmt"
	"math"
	"os"
	"os/exec"
	"path/filepath"
	"strconv"
	"strings"
	"testing"
	"time"

	"evylang.dev/evy/pkg/cli"
	"evylang.dev/evy/pkg/evaluator"
	"pgregory.net/rapid"
	"verif/harness/h"
	"verif/harness/m"
	"verif/harness/rec"
)

// Cmd is one graphics call of a history.
type Cmd struct {
	Fn   string            `json:"fn"`
	Nums []float64         `json:"nums,omitempty"`
	Strs []string          `json:"strs,omitempty"`
	Font map[string]string `json:"font,omitempty"` // property -> evy literal
}

// Case is a history of graphics calls.
type Case struct {
	History []Cmd  `json:"history"`
	Src     string `json:"src"`
	CLI     bool   `json:"cli,omitempty"`
}

func numLit(f float64) string {
	if f < 0 {
		return "(-" + strconv.FormatFloat(-f, 'f', -1, 64) + ")"
	}
	return strconv.FormatFloat(f, 'f', -1, 64)
}

func render(hist []Cmd) string {
	var sb strings.Builder
	for _, c := range hist {
		sb.WriteString(c.Fn)
		switch c.Fn {
		case "poly":
			for i := 0; i+1 < len(c.Nums); i += 2 {
				sb.WriteString(" [" + numLit(c.Nums[i]) + " " + numLit(c.Nums[i+1]) + "]")
			}
		case "font":
			sb.WriteString(" {")
			keys := []string{"family", "size", "weight", "style", "baseline", "align", "letterspacing"}
			first := true
			for _, k := range keys {
				if v, ok := c.Font[k]; ok {
					if !first {
						sb.WriteString(" ")
					}
					first = false
					sb.WriteString(k + ":" + v)
				}
			}
			sb.WriteString("}")
		default:
			for _, n := range c.Nums {
				sb.WriteString(" " + numLit(n))
			}
			for _, s := range c.Strs {
				sb.WriteString(" " + m.Quote(s))
			}
		}
		sb.WriteString("\n")
	}
	return sb.String()
}

// ---- the pen model ----

type style struct {
	stroke, fill, width, dash, linecap                        string // "" = never set (initial pen)
	family, size, weight, fstyle, baseline, anchor, letterspc string
}

type leaf struct {
	kind  string // line rect circle ellipse polyline text
	geom  map[string]string
	st    style
	text  string
	cmd   string          // the command that produced it
	loose map[string]bool // properties not asserted for this leaf
	alone bool            // its command is the only drawing command between two style changes (finding F43's situation)
}

func f10(v float64) string { return strconv.FormatFloat(v, 'f', -1, 64) }

func expected(hist []Cmd) []leaf {
	var out []leaf
	x, y := 0.0, 0.0
	var pen style
	ty := func(v float64) float64 { return 1000 - 10*v }
	add := func(l leaf) { out = append(out, l) }
	clear := func(color, cmd string, given bool) {
		loose := map[string]bool{"width-attr": true, "dash": true, "linecap": true}
		if color == "" {
			color = "white"
			if given {
				// `clear ""`: the documents define the argument as a colour; what an empty string stands for is left open
				loose["stroke"], loose["fill"] = true, true
			}
		}
		add(leaf{kind: "rect", cmd: cmd, geom: map[string]string{"x": "0", "y": "0", "width": "100%", "height": "100%"}, st: style{stroke: color, fill: color}, loose: loose})
	}
	clear("white", "(initial clear)", false)
	// drawing commands are collected until the next style change (or the end) and written as one group
	groupStart, groupCmds := 0, 1
	closeGroup := func() {
		if groupCmds == 1 {
			for i := groupStart; i < len(out); i++ {
				out[i].alone = true
			}
		}
		groupStart, groupCmds = len(out), 0
	}
	for _, c := range hist {
		n := c.Nums
		switch c.Fn {
		case "move":
		case "color", "colour", "stroke", "fill", "width", "dash", "linecap", "font":
			closeGroup()
		default:
			groupCmds++
		}
		switch c.Fn {
		case "move":
			x, y = n[0], n[1]
		case "line":
			add(leaf{kind: "line", cmd: c.Fn, st: pen, geom: map[string]string{"x1": f10(10 * x), "y1": f10(ty(y)), "x2": f10(10 * n[0]), "y2": f10(ty(n[1]))}})
			x, y = n[0], n[1]
		case "rect":
			x2, y2 := x+n[0], y+n[1]
			add(leaf{kind: "rect", cmd: c.Fn, st: pen, geom: map[string]string{"x": f10(10 * math.Min(x, x2)), "y": f10(ty(math.Max(y, y2))), "width": f10(10 * math.Abs(n[0])), "height": f10(10 * math.Abs(n[1]))}})
			x, y = x2, y2
		case "circle":
			add(leaf{kind: "circle", cmd: c.Fn, st: pen, geom: map[string]string{"cx": f10(10 * x), "cy": f10(ty(y)), "r": f10(10 * n[0])}})
		case "ellipse":
			rx := n[2]
			ry := rx
			if len(n) > 3 {
				ry = n[3]
			}
			g := map[string]string{"cx": f10(10 * n[0]), "cy": f10(ty(n[1])), "rx": f10(10 * rx), "ry": f10(10 * ry)}
			kind := "ellipse"
			if len(n) == 7 && math.Mod(math.Abs(n[6]-n[5]), 360) != 0 {
				kind = "elliptical arc (not a full <ellipse>)" // start and end angle given: only part of the outline is drawn
				g = map[string]string{}
			}
			add(leaf{kind: kind, cmd: c.Fn, st: pen, geom: g})
		case "poly":
			var pts []string
			for i := 0; i+1 < len(n); i += 2 {
				pts = append(pts, f10(10*n[i])+","+f10(ty(n[i+1])))
			}
			add(leaf{kind: "polyline", cmd: c.Fn, st: pen, geom: map[string]string{"points": strings.Join(pts, " ")}})
		case "text":
			add(leaf{kind: "text", cmd: c.Fn, st: pen, text: c.Strs[0], geom: map[string]string{"x": f10(10 * x), "y": f10(ty(y))}})
		case "clear":
			col := ""
			if len(c.Strs) > 0 {
				col = c.Strs[0]
			}
			clear(col, "clear", len(c.Strs) > 0)
		case "grid", "gridn":
			unit, col := 10.0, "hsl(0deg 100% 0% / 50%)"
			if c.Fn == "gridn" {
				unit, col = n[0], c.Strs[0]
			}
			for i := 0.0; i <= 100; i += unit {
				v := f10(10 * i)
				gl := map[string]bool{"width-attr": true, "fill": true, "dash": true, "linecap": true}
				if col == "" {
					gl["stroke"] = true // `gridn n ""`: an empty string is not a colour, what it stands for is left open
				}
				add(leaf{kind: "line", cmd: c.Fn, st: style{stroke: col}, geom: map[string]string{"x1": v, "y1": "0", "x2": v, "y2": "1000"}, loose: gl})
				add(leaf{kind: "line", cmd: c.Fn, st: style{stroke: col}, geom: map[string]string{"x1": "0", "y1": v, "x2": "1000", "y2": v}, loose: gl})
			}
		case "color", "colour":
			pen.stroke, pen.fill = c.Strs[0], c.Strs[0]
		case "stroke":
			pen.stroke = c.Strs[0]
		case "fill":
			pen.fill = c.Strs[0]
		case "width":
			pen.width = f10(10 * n[0])
		case "dash":
			var d []string
			for _, v := range n {
				d = append(d, f10(10*v))
			}
			pen.dash = strings.Join(d, " ")
			if len(n) == 0 {
				pen.dash = "none"
			}
		case "linecap":
			pen.linecap = c.Strs[0]
		case "font":
			for k, v := range c.Font {
				uq := strings.Trim(v, `"`)
				switch k {
				case "family":
					pen.family = uq
				case "size":
					f, _ := strconv.ParseFloat(v, 64)
					pen.size = f10(10 * f)
				case "weight":
					pen.weight = v
				case "style":
					pen.fstyle = uq
				case "baseline":
					pen.baseline = map[string]string{"top": "hanging", "middle": "middle", "bottom": "ideographic", "alphabetic": "alphabetic"}[uq]
				case "align":
					pen.anchor = map[string]string{"left": "start", "center": "middle", "right": "end"}[uq]
				case "letterspacing":
					pen.letterspc = v
				}
			}
		}
	}
	closeGroup()
	return out
}

// ---- reading the SVG back ----

type node struct {
	name     string
	attrs    map[string]string
	text     string
	children []*node
}

func parseSVG(b []byte) (*node, error) {
	d := xml.NewDecoder(bytes.NewReader(b))
	d.Strict = true
	var stack []*node
	var root *node
	for {
		tok, err := d.Token()
		if err != nil {
			if err.Error() == "EOF" {
				break
			}
			return nil, err
		}
		switch t := tok.(type) {
		case xml.StartElement:
			n := &node{name: t.Name.Local, attrs: map[string]string{}}
			if t.Name.Space != "http://www.w3.org/2000/svg" {
				return nil, fmt.Errorf("element %s is not in the SVG namespace (%q)", t.Name.Local, t.Name.Space)
			}
			for _, a := range t.Attr {
				if a.Name.Local == "xmlns" {
					continue
				}
				if _, dup := n.attrs[a.Name.Local]; dup {
					return nil, fmt.Errorf("duplicate attribute %s on %s", a.Name.Local, n.name)
				}
				n.attrs[a.Name.Local] = a.Value
			}
			if len(stack) == 0 {
				if root != nil {
					return nil, fmt.Errorf("more than one root element")
				}
				root = n
			} else {
				p := stack[len(stack)-1]
				p.children = append(p.children, n)
			}
			stack = append(stack, n)
		case xml.EndElement:
			stack = stack[:len(stack)-1]
		case xml.CharData:
			if len(stack) > 0 && stack[len(stack)-1].name == "text" {
				stack[len(stack)-1].text += string(t)
			} else if strings.TrimSpace(string(t)) != "" {
				return nil, fmt.Errorf("unexpected character data %q", string(t))
			}
		}
	}
	if root == nil || len(stack) != 0 {
		return nil, fmt.Errorf("no complete root element")
	}
	return root, nil
}

// documented defaults of font (builtins.md#font), in SVG terms
var fontDefaults = map[string]string{"font-size": "60", "font-weight": "400", "font-style": "normal", "dominant-baseline": "alphabetic", "text-anchor": "start", "letter-spacing": "0"}

// initial values of presentation properties per the SVG specification
var svgInitial = map[string]string{"fill": "black", "stroke": "none", "stroke-width": "1", "stroke-linecap": "butt"}

var inherited = []string{"stroke", "fill", "stroke-width", "stroke-dasharray", "stroke-linecap", "font-family", "font-size", "font-weight", "font-style", "dominant-baseline", "text-anchor", "letter-spacing"}

type gotLeaf struct {
	kind  string
	attrs map[string]string // geometry + resolved presentation attributes
	text  string
}

func flatten(n *node, inh map[string]string, out *[]gotLeaf) {
	cur := map[string]string{}
	for k, v := range inh {
		cur[k] = v
	}
	for _, k := range inherited {
		if v, ok := n.attrs[k]; ok {
			cur[k] = v
		}
	}
	switch n.name {
	case "svg", "g":
		for _, c := range n.children {
			flatten(c, cur, out)
		}
	default:
		l := gotLeaf{kind: n.name, attrs: map[string]string{}, text: n.text}
		for k, v := range cur {
			l.attrs[k] = v
		}
		for k, v := range n.attrs {
			l.attrs[k] = v
		}
		*out = append(*out, l)
	}
}

// numEq compares attribute values; numbers are compared with a relative tolerance of 1e-9
// (positions are computed by repeated addition in one place and multiplication in another).
func numEq(a, b string) bool {
	if a == b {
		return true
	}
	fa, ea := strconv.ParseFloat(a, 64)
	fb, eb := strconv.ParseFloat(b, 64)
	if ea != nil || eb != nil {
		return false
	}
	return fa == fb || math.Abs(fa-fb) <= 1e-9*math.Max(1, math.Max(math.Abs(fa), math.Abs(fb)))
}

func pointsEq(a, b string) bool {
	fa, fb := strings.Fields(a), strings.Fields(b)
	if len(fa) != len(fb) {
		return false
	}
	for i := range fa {
		pa, pb := strings.Split(fa[i], ","), strings.Split(fb[i], ",")
		if len(pa) != 2 || len(pb) != 2 || !numEq(pa[0], pb[0]) || !numEq(pa[1], pb[1]) {
			return false
		}
	}
	return true
}

var runSVG = runInProcess

func runInProcess(src string) ([]byte, rec.Outcome) {
	rt := cli.NewPlatform(cli.WithSVG("", "", ""), cli.WithOutputWriter(&bytes.Buffer{}), cli.WithSkipSleep(true))
	var out rec.Outcome
	func() {
		defer func() {
			if r := recover(); r != nil {
				out = rec.Outcome{Class: "gopanic", Msg: fmt.Sprint(r)}
			}
		}()
		ev := evaluator.NewEvaluator(rt)
		out = rec.Classify(ev.Run(src))
	}()
	var buf bytes.Buffer
	var werr error
	func() {
		defer func() {
			if r := recover(); r != nil {
				out = rec.Outcome{Class: "gopanic", Msg: "writing the SVG: " + fmt.Sprint(r)}
			}
		}()
		werr = rt.WriteSVG(&buf)
	}()
	if werr != nil {
		return nil, rec.Outcome{Class: "othererr", Msg: werr.Error()}
	}
	return buf.Bytes(), out
}

// baseline resolves the presentation attributes of shapes drawn with the initial pen.
var baseline map[string]map[string]string

func initBaseline() {
	if baseline != nil {
		return
	}
	baseline = map[string]map[string]string{}
	b, _ := runInProcess("move 1 1\nline 2 2\ntext \"t\"\n")
	root, err := parseSVG(b)
	if err != nil {
		return
	}
	var ls []gotLeaf
	flatten(root, map[string]string{}, &ls)
	for _, l := range ls {
		baseline[l.kind] = l.attrs
	}
}

// checkCase returns the first failure; checkAll returns one failure per shape property that is wrong.
func checkCase(c Case) *h.Failure {
	if all := checkAll(c); len(all) > 0 {
		return all[0]
	}
	return nil
}

func checkAll(c Case) (fails []*h.Failure) {
	one := func(f *h.Failure) []*h.Failure { return []*h.Failure{f} }
	mk := func(kind, detail string) *h.Failure {
		return &h.Failure{Kind: kind, Detail: detail, Src: c.Src, Case: c, Callsite: "svg"}
	}
	initBaseline()
	done := h.WatchFail(c.Src, 180*time.Second, mk("hang", "drawing the history and writing the SVG did not terminate within 180 s"))
	b, out := runSVG(c.Src)
	done()
	if out.Class != "ok" {
		if out.Class == "gopanic" {
			return one(mk("gopanic", out.Msg))
		}
		return one(mk("run-failed", "the drawing program did not run to completion: "+out.String()))
	}
	root, err := parseSVG(b)
	if err != nil {
		return one(mk("not-well-formed", "the SVG does not parse as XML: "+err.Error()+"\n"+clip(string(b), 1500)))
	}
	if root.name != "svg" || root.attrs["viewBox"] != "0 0 1000 1000" {
		return one(mk("root", fmt.Sprintf("root element %s viewBox %q", root.name, root.attrs["viewBox"])))
	}
	var got []gotLeaf
	flatten(root, map[string]string{}, &got)
	want := expected(c.History)
	if len(got) != len(want) {
		return one(mk("shape-count", fmt.Sprintf("%d drawing commands produce %d shapes in the SVG (expected %d)\n%s", len(c.History), len(got), len(want), clip(string(b), 1500))))
	}
	for i, w := range want {
		g := got[i]
		where := fmt.Sprintf("shape %d (%s)", i+1, w.cmd)
		if g.kind != w.kind {
			fails = append(fails, mk("shape-kind", fmt.Sprintf("%s is a <%s>, expected <%s>", where, g.kind, w.kind)))
			continue
		}
		for k, v := range w.geom {
			ok := numEq(g.attrs[k], v)
			if k == "points" {
				ok = pointsEq(g.attrs[k], v)
			}
			if !ok {
				fails = append(fails, mk("geometry:"+w.kind, fmt.Sprintf("%s has %s=%q, the command gives %q (x and lengths scaled by 10, y flipped: 1000-10y)", where, k, g.attrs[k], v)))
			}
		}
		if w.kind == "text" && g.text != w.text {
			fails = append(fails, mk("text-content", fmt.Sprintf("%s shows %q, expected %q", where, g.text, w.text)))
		}
		base := baseline["line"] // an untouched pen: what a shape drawn before any style change resolves to
		if w.kind == "text" {
			base = baseline["text"]
		}
		prop := func(name, attr, val string) *h.Failure {
			if w.loose[name] {
				return nil
			}
			exp := val
			if val == "" {
				exp = base[attr] // initial pen: whatever an untouched pen resolves to
				if _, ok := base[attr]; !ok {
					exp = svgInitial[attr]
				}
			}
			gotv, okg := g.attrs[attr]
			if !okg {
				if d, ok := svgInitial[attr]; ok {
					gotv, okg = d, true // the SVG specification's initial value of an absent property
				}
			}
			if !okg && fontDefaults[attr] != "" && numEq(exp, fontDefaults[attr]) {
				return nil // the documented default may be left to the renderer
			}
			if name == "dash" && (exp == "none" || exp == "") && (!okg || gotv == "" || gotv == "none") {
				return nil
			}
			if !numEq(gotv, exp) && !(attr == "stroke-dasharray" && pointsEqSpace(gotv, exp)) {
				tag := ""
				if w.alone {
					tag = " (the only drawing command between two style changes)"
				}
				return mk("style:"+name, fmt.Sprintf("%s has %s=%q, the pen had %s %q when it was drawn%s", where, attr, gotv, name, exp, tag))
			}
			return nil
		}
		checks := []struct{ name, attr, val string }{{"stroke", "stroke", w.st.stroke}, {"fill", "fill", w.st.fill}, {"width-attr", "stroke-width", w.st.width}, {"dash", "stroke-dasharray", w.st.dash}, {"linecap", "stroke-linecap", w.st.linecap}}
		if w.kind == "text" {
			// builtins.md#text: only fill and color have an effect on the text: it is filled with the fill colour
			checks = []struct{ name, attr, val string }{{"fill", "fill", w.st.fill}, {"font-family", "font-family", w.st.family}, {"font-size", "font-size", w.st.size}, {"font-weight", "font-weight", w.st.weight},
				{"font-style", "font-style", w.st.fstyle}, {"baseline", "dominant-baseline", w.st.baseline}, {"align", "text-anchor", w.st.anchor}, {"letterspacing", "letter-spacing", w.st.letterspc}}
		}
		for _, ck := range checks {
			if fl := prop(ck.name, ck.attr, ck.val); fl != nil {
				fails = append(fails, fl)
			}
		}
	}
	if c.CLI {
		if fl := cliCheck(c, b); fl != nil {
			fails = append(fails, fl)
		}
	}
	return fails
}

func pointsEqSpace(a, b string) bool {
	fa, fb := strings.Fields(a), strings.Fields(b)
	if len(fa) != len(fb) {
		return false
	}
	for i := range fa {
		if !numEq(fa[i], fb[i]) {
			return false
		}
	}
	return true
}

func clip(s string, n int) string {
	if len(s) > n {
		return s[:n] + "…"
	}
	return s
}

// cliCheck: the real `evy run --svg-out` writes the same document.
func cliCheck(c Case, inproc []byte) *h.Failure {
	bin := filepath.Join(os.Getenv("VERIF_BUILD"), "evy")
	if _, err := os.Stat(bin); err != nil {
		return nil
	}
	dir, _ := os.MkdirTemp("", "verif-c19-")
	defer os.RemoveAll(dir)
	f, svg := filepath.Join(dir, "p.evy"), filepath.Join(dir, "o.svg")
	os.WriteFile(f, []byte(c.Src), 0o644) //nolint:errcheck
	cmd := exec.Command(bin, "run", "--svg-out", svg, f)
	out, err := cmd.CombinedOutput()
	if err != nil {
		return &h.Failure{Kind: "cli-failed", Detail: fmt.Sprintf("evy run --svg-out failed: %v %s", err, out), Src: c.Src, Case: c, Callsite: "svg"}
	}
	b, _ := os.ReadFile(svg)
	if !bytes.Equal(b, inproc) {
		return &h.Failure{Kind: "cli-differs", Detail: "evy run --svg-out wrote a different document than the library platform", Src: c.Src, Case: c, Callsite: "svg"}
	}
	return nil
}

var colors = []string{"red", "blue", "green", "black", "white", "hsl(0deg 100% 0% / 50%)", "#ff00aa", "none", "", "a<b&\"c\">", "]]>", "rgb(1 2 3)", "tr\tab"}
var texts = []string{"hello", "", "a<b>&\"'c", "]]>", "<script>x</script>", "ä 日 🌍", "line\nbreak", "  spaces  ", "&amp;", strings.Repeat("long ", 40)}
var numsG = []float64{0, 1, 5, 10, 50, 99.5, 100, -10, 0.5, 2.25, 150, 1e6, -0.125}

func drawCmd(t *rapid.T, gridOK bool) Cmd {
	pick := func() float64 { return rapid.SampledFrom(numsG).Draw(t, "num") }
	fns := []string{"move", "line", "line", "rect", "circle", "ellipse", "poly", "text", "clear", "grid", "gridn", "color", "colour", "stroke", "fill", "width", "dash", "linecap", "font"}
	fn := rapid.SampledFrom(fns).Draw(t, "fn")
	c := Cmd{Fn: fn}
	switch fn {
	case "move", "line", "rect":
		c.Nums = []float64{pick(), pick()}
	case "circle", "width":
		c.Nums = []float64{pick()}
	case "ellipse":
		n := rapid.SampledFrom([]int{3, 4, 5, 3, 4, 5, 7}).Draw(t, "ellipse-args")
		for i := 0; i < n; i++ {
			c.Nums = append(c.Nums, pick())
		}
	case "poly":
		for i, n := 0, rapid.IntRange(0, 4).Draw(t, "nvertices"); i < n; i++ {
			c.Nums = append(c.Nums, pick(), pick())
		}
	case "text":
		c.Strs = []string{rapid.SampledFrom(texts).Draw(t, "text")}
	case "clear":
		if rapid.Bool().Draw(t, "clearcolor") {
			c.Strs = []string{rapid.SampledFrom(colors).Draw(t, "color")}
		}
	case "gridn":
		// degenerate units (<= 0, NaN) are probed by TestGridnDegenerate through the real binary:
		// an endless allocation cannot be survived in-process
		u := rapid.SampledFrom([]float64{10, 20, 25, 50, 100, 7.5, 33.3, 1}).Draw(t, "unit")
		_ = gridOK
		c.Nums, c.Strs = []float64{u}, []string{rapid.SampledFrom(colors).Draw(t, "color")}
	case "color", "colour", "stroke", "fill":
		c.Strs = []string{rapid.SampledFrom(colors).Draw(t, "color")}
	case "dash":
		for i, n := 0, rapid.IntRange(0, 3).Draw(t, "ndash"); i < n; i++ {
			c.Nums = append(c.Nums, rapid.SampledFrom([]float64{1, 2, 0.5, 5, 0}).Draw(t, "dashseg"))
		}
	case "linecap":
		c.Strs = []string{rapid.SampledFrom([]string{"round", "butt", "square"}).Draw(t, "cap")}
	case "font":
		c.Font = map[string]string{}
		props := map[string][]string{"family": {`"serif"`, `"Georgia, serif"`, `"a<b"`}, "size": {"3", "6", "10.5"}, "weight": {"400", "700", "100"}, "style": {`"italic"`, `"normal"`},
			"baseline": {`"top"`, `"middle"`, `"bottom"`, `"alphabetic"`}, "align": {`"left"`, `"center"`, `"right"`}, "letterspacing": {"1", "0", "-0.5"}}
		names := []string{"family", "size", "weight", "style", "baseline", "align", "letterspacing"}
		for i, n := 0, rapid.IntRange(0, 3).Draw(t, "nprops"); i < n; i++ {
			k := rapid.SampledFrom(names).Draw(t, "prop")
			c.Font[k] = rapid.SampledFrom(props[k]).Draw(t, "propval")
		}
	}
	return c
}

func isShape(fn string) bool {
	switch fn {
	case "line", "rect", "circle", "ellipse", "poly", "text", "clear", "grid", "gridn":
		return true
	}
	return false
}

func TestProp(t *testing.T) {
	if h.ReplayPath() != "" {
		t.Skip("replay run")
	}
	ctx := h.Setup(t, "C19")
	ncli, cliBudget := 0, 20
	if ctx.Thorough() {
		cliBudget = 250
	}
	gridHangOpen := ctx.Open("F41")
	rapid.Check(t, func(t *rapid.T) {
		n := rapid.IntRange(0, 40).Draw(t, "ncmds")
		c := Case{}
		for i := 0; i < n; i++ {
			c.History = append(c.History, drawCmd(t, !gridHangOpen))
		}
		c.Src = render(c.History)
		if ncli < cliBudget && rapid.IntRange(0, 40).Draw(t, "cli") == 0 {
			c.CLI = true
			ncli++
			ctx.Rec.Add("evy_run_svg_out_cases", 1)
		}
		fails := checkAll(c)
		styleChanges, shapes := 0, 0
		var kinds []string
		for _, cmd := range c.History {
			if isShape(cmd.Fn) {
				shapes++
			} else if cmd.Fn != "move" {
				styleChanges++
			}
			kinds = append(kinds, cmd.Fn)
		}
		nontrivial := styleChanges >= 2 && shapes >= 2
		ctx.Rec.Case(nontrivial, strings.Join(kinds, " ")+"|"+c.Src)
		for _, k := range kinds {
			ctx.Rec.Class("cmd:" + k)
		}
		if nontrivial && ctx.Rec.WantSample() && len(c.Src) < 500 {
			ctx.Rec.Sample(map[string]any{"src": c.Src, "shapes": shapes, "style_changes": styleChanges})
		}
		for _, fl := range fails {
			ctx.Report(t, fl)
		}
	})
}

// degenerate checks one degenerate gridn call through the real binary under a memory and time limit.
func degenerate(c Case) *h.Failure {
	bin := filepath.Join(os.Getenv("VERIF_BUILD"), "evy")
	if _, err := os.Stat(bin); err != nil {
		return nil
	}
	dir, _ := os.MkdirTemp("", "verif-c19-")
	defer os.RemoveAll(dir)
	f, svg := filepath.Join(dir, "p.evy"), filepath.Join(dir, "o.svg")
	os.WriteFile(f, []byte(c.Src), 0o644) //nolint:errcheck
	cctx, cancel := context.WithTimeout(context.Background(), 20*time.Second)
	defer cancel()
	cmd := exec.CommandContext(cctx, "/bin/sh", "-c", "ulimit -v 3000000; exec \"$0\" run --svg-out \"$1\" \"$2\"", bin, svg, f)
	out, _ := cmd.CombinedOutput()
	mk := func(kind, detail string) *h.Failure {
		return &h.Failure{Kind: kind, Detail: detail, Src: c.Src, Case: c, Callsite: "svg gridn-degenerate"}
	}
	if cctx.Err() == context.DeadlineExceeded {
		return mk("hang", "evy run --svg-out did not terminate within 20 s")
	}
	if strings.Contains(string(out), "fatal error") || strings.Contains(string(out), "goroutine ") {
		return mk("hang", "evy run --svg-out does not terminate: it allocates until the Go runtime dies: "+clip(string(out), 200))
	}
	if b, err := os.ReadFile(svg); err == nil {
		if _, err := parseSVG(b); err != nil {
			return mk("not-well-formed", err.Error())
		}
	}
	return nil
}

// TestGridnDegenerate probes gridn with units for which a naive loop never ends.
func TestGridnDegenerate(t *testing.T) {
	if h.ReplayPath() != "" {
		t.Skip("replay run")
	}
	ctx := h.Setup(t, "C19")
	for _, unit := range []string{"0", "(-10)", "(0/0)", "(-0.5)"} {
		c := Case{Src: "color \"red\"\ngridn " + unit + " \"blue\"\ncircle 5\n", History: []Cmd{{Fn: "gridn-degenerate", Strs: []string{unit}}}}
		fl := degenerate(c)
		ctx.Rec.Case(true, c.Src, "cmd:gridn-degenerate")
		ctx.Rec.Sample(map[string]any{"src": c.Src})
		ctx.Report(t, fl)
	}
}

func TestReplay(t *testing.T) {
	path := h.ReplayPath()
	if path == "" {
		t.Skip("no replay requested")
	}
	ctx := h.Setup(t, "C19")
	var c Case
	if _, err := h.LoadReplay(path, &c); err != nil {
		t.Fatalf("cannot load replay: %v", err)
	}
	if len(c.History) == 1 && c.History[0].Fn == "gridn-degenerate" {
		ctx.FinishReplay(t, degenerate(c))
		return
	}
	if c.Src == "" {
		c.Src = render(c.History)
	}
	ctx.FinishReplay(t, checkCase(c))
}
