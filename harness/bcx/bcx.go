// Package bcx runs a parsed program on the tree-walking evaluator and on the
// bytecode compiler + VM (hooks behind build tag verif) and compares them.
package bcx

import (
	"errors"
	"fmt"
	"math"
	"runtime/debug"
	"sort"
	"strings"
	"sync/atomic"
	"time"

	"evylang.dev/evy/pkg/bytecode"
	"evylang.dev/evy/pkg/evaluator"
	"evylang.dev/evy/pkg/parser"
	"verif/harness/rec"
)

// VMResult is the outcome of compiling and running on the VM.
type VMResult struct {
	CompileErr error
	RunErr     error
	Panic      string
	Stack      string
	Globals    map[string]any
	SP         int
	BC         *bytecode.Bytecode
	Hang       bool  // the instruction budget was exceeded
	Slow       bool  // aborted after the wall-time limit, inside the budget: inconclusive
	Steps      int64 // instructions executed
	Budget     int64
}

// Leaked counts VM runs that were abandoned because they did not finish.
var Leaked int

// RunVM compiles and runs prog on the VM inside recover, with an instruction
// budget (hook VerifSetBudget) derived from the number of evaluation steps the
// evaluator needed for the same program (evalSteps < 0: unknown, a large fixed
// budget). Exceeding the budget sets Hang: a deterministic verdict that does not
// depend on the load of the machine. A run that stays inside the budget but takes
// longer than 10 s of wall time is aborted through the hook and marked Slow,
// which callers count and skip, never report.
func RunVM(prog *parser.Program, evalSteps int) *VMResult {
	budget := int64(100_000_000)
	if evalSteps >= 0 {
		budget = 200_000 + 2_000*int64(evalSteps)
	}
	var abort atomic.Bool
	ch := make(chan *VMResult, 1)
	go func() { ch <- runVM(prog, budget, &abort) }()
	select {
	case r := <-ch:
		return r
	case <-time.After(10 * time.Second):
	}
	abort.Store(true)
	select {
	case r := <-ch:
		if !r.Hang {
			r.Slow = true
		}
		return r
	case <-time.After(30 * time.Second):
		Leaked++
		return &VMResult{Slow: true}
	}
}

func runVM(prog *parser.Program, budget int64, abort *atomic.Bool) (res *VMResult) {
	res = &VMResult{}
	var vm *bytecode.VM
	defer func() {
		if vm != nil {
			res.Steps = vm.VerifSteps()
		}
		if r := recover(); r != nil {
			switch r := r.(type) {
			case bytecode.VerifBudgetExceeded:
				res.Hang, res.Steps = true, r.Steps
			case bytecode.VerifAborted:
				res.Slow, res.Steps = true, r.Steps
			default:
				res.Panic = fmt.Sprint(r)
				res.Stack = string(debug.Stack())
			}
		}
	}()
	c := bytecode.NewCompiler()
	if err := c.Compile(prog); err != nil {
		res.CompileErr = err
		return res
	}
	res.BC = c.Bytecode()
	vm = bytecode.NewVM(res.BC)
	vm.VerifSetBudget(budget, abort)
	res.RunErr = vm.Run()
	res.Globals = vm.VerifGlobals(c)
	res.SP = vm.VerifSP()
	return res
}

// EvalGlobals runs prog on the evaluator and returns its user globals.
func EvalGlobals(prog *parser.Program) (map[string]any, rec.Outcome, *rec.Result) {
	res := rec.RunProg(prog, rec.Opts{Fuel: 100000}, nil)
	if res.Ev == nil {
		return nil, res.Out, res
	}
	g := res.Ev.VerifGlobals()
	delete(g, "err")
	delete(g, "errmsg")
	delete(g, "pi")
	return g, res.Out, res
}

// VMClass maps a VM run error to the evaluator's outcome class names.
func VMClass(err error) string {
	switch {
	case err == nil:
		return "ok"
	case errors.Is(err, bytecode.ErrDivideByZero):
		return "panic:dividebyzero"
	case errors.Is(err, bytecode.ErrBounds):
		return "panic:bounds"
	case errors.Is(err, bytecode.ErrIndexValue):
		return "panic:index"
	case errors.Is(err, bytecode.ErrSlice):
		return "panic:slice"
	case errors.Is(err, bytecode.ErrMapKey):
		return "panic:mapkey"
	case errors.Is(err, bytecode.ErrBadRepetition):
		return "panic:badrepetition"
	case errors.Is(err, bytecode.ErrStackOverflow):
		return "panic:stackoverflow"
	case errors.Is(err, bytecode.ErrInternal):
		return "internal"
	case errors.Is(err, bytecode.ErrPanic):
		return "panic:other"
	}
	return "othererr"
}

// Show renders a structural value.
func Show(v any) string {
	switch v := v.(type) {
	case nil:
		return "<unset>"
	case float64:
		return fmt.Sprint(v)
	case string:
		return fmt.Sprintf("%q", v)
	case bool:
		return fmt.Sprint(v)
	case []any:
		parts := make([]string, len(v))
		for i, e := range v {
			parts[i] = Show(e)
		}
		return "[" + strings.Join(parts, " ") + "]"
	case evaluator.VerifOrderedMap:
		parts := make([]string, 0, len(v.Keys))
		for _, k := range v.Keys {
			parts = append(parts, k+":"+Show(v.Vals[k]))
		}
		return fmt.Sprintf("{%s}(%d entries)", strings.Join(parts, " "), len(v.Vals))
	case bytecode.VerifOrderedMap:
		parts := make([]string, 0, len(v.Keys))
		for _, k := range v.Keys {
			parts = append(parts, k+":"+Show(v.Vals[k]))
		}
		return fmt.Sprintf("{%s}(%d entries)", strings.Join(parts, " "), len(v.Vals))
	}
	return fmt.Sprintf("%v", v)
}

// Same compares two structural values deeply (NaN equals NaN; maps compare keys in order and values).
func Same(a, b any) bool {
	switch a := a.(type) {
	case float64:
		bb, ok := b.(float64)
		return ok && (a == bb || (math.IsNaN(a) && math.IsNaN(bb)))
	case string:
		bb, ok := b.(string)
		return ok && a == bb
	case bool:
		bb, ok := b.(bool)
		return ok && a == bb
	case []any:
		bb, ok := b.([]any)
		if !ok || len(a) != len(bb) {
			return false
		}
		for i := range a {
			if !Same(a[i], bb[i]) {
				return false
			}
		}
		return true
	case evaluator.VerifOrderedMap:
		var keys []string
		var vals map[string]any
		switch bb := b.(type) {
		case bytecode.VerifOrderedMap:
			keys, vals = bb.Keys, bb.Vals
		case evaluator.VerifOrderedMap:
			keys, vals = bb.Keys, bb.Vals
		default:
			return false
		}
		if len(a.Keys) != len(keys) || len(a.Vals) != len(vals) {
			return false
		}
		for i, k := range a.Keys {
			if keys[i] != k || !Same(a.Vals[k], vals[k]) {
				return false
			}
		}
		return true
	}
	return false
}

// DiffGlobals describes the first evaluator global that the VM does not reproduce.
func DiffGlobals(ev, vm map[string]any) string {
	names := make([]string, 0, len(ev))
	for n := range ev {
		names = append(names, n)
	}
	sort.Strings(names)
	for _, n := range names {
		v, ok := vm[n]
		if !ok {
			return fmt.Sprintf("global %q = %s on the evaluator does not exist on the VM", n, Show(ev[n]))
		}
		if !Same(ev[n], v) {
			return fmt.Sprintf("global %q is %s on the evaluator and %s on the VM", n, Show(ev[n]), Show(v))
		}
	}
	return ""
}
