// Package rec runs Evy source through the real parser and evaluator on a
// recording platform with fuel, and classifies how the run ended.
package rec

import (
	"errors"
	"fmt"
	"math/rand"
	"reflect"
	"runtime"
	"runtime/debug"
	"runtime/metrics"
	"strconv"
	"strings"
	"sync/atomic"
	"time"

	"evylang.dev/evy/pkg/evaluator"
	"evylang.dev/evy/pkg/parser"
)

// Platform records every platform call as one line of Log.
type Platform struct {
	Log     []string
	Inputs  []string
	inPos   int
	Y       *Yielder
	MaxLog  int // abort (panic with ErrTooMuch) when exceeded; 0 = unlimited
	NoYield bool
}

// ErrTooMuch is the sentinel panic value raised when a run exceeds its effect budget.
var ErrTooMuch = errors.New("verif: effect budget exceeded")

func (p *Platform) add(s string) {
	p.Log = append(p.Log, s)
	if p.Y != nil {
		p.Y.effects++
		if p.Y.stoppedAt >= 0 {
			p.Y.EffectsAfterStop++
		}
	}
	if p.MaxLog > 0 && len(p.Log) > p.MaxLog {
		panic(ErrTooMuch)
	}
}

func f(x float64) string { return strconv.FormatFloat(x, 'g', -1, 64) }

func (p *Platform) Print(s string) { p.add("print:" + s) }
func (p *Platform) Read() string {
	s := ""
	if p.inPos < len(p.Inputs) {
		s = p.Inputs[p.inPos]
		p.inPos++
	}
	p.add("read:" + s)
	return s
}
func (p *Platform) Cls()                      { p.add("cls") }
func (p *Platform) Sleep(d time.Duration)     { p.add("sleep:" + d.String()) }
func (p *Platform) Move(x, y float64)         { p.add("move:" + f(x) + "," + f(y)) }
func (p *Platform) Line(x, y float64)         { p.add("line:" + f(x) + "," + f(y)) }
func (p *Platform) Rect(x, y float64)         { p.add("rect:" + f(x) + "," + f(y)) }
func (p *Platform) Circle(r float64)          { p.add("circle:" + f(r)) }
func (p *Platform) Width(w float64)           { p.add("width:" + f(w)) }
func (p *Platform) Color(s string)            { p.add("color:" + s) }
func (p *Platform) Clear(s string)            { p.add("clear:" + s) }
func (p *Platform) Stroke(s string)           { p.add("stroke:" + s) }
func (p *Platform) Fill(s string)             { p.add("fill:" + s) }
func (p *Platform) Linecap(s string)          { p.add("linecap:" + s) }
func (p *Platform) Text(s string)             { p.add("text:" + s) }
func (p *Platform) Gridn(u float64, c string) { p.add("gridn:" + f(u) + "," + c) }
func (p *Platform) Poly(v [][]float64)        { p.add(fmt.Sprintf("poly:%v", v)) }
func (p *Platform) Dash(v []float64)          { p.add(fmt.Sprintf("dash:%v", v)) }
func (p *Platform) Ellipse(x, y, rx, ry, rot, a0, a1 float64) {
	p.add(fmt.Sprintf("ellipse:%v,%v,%v,%v,%v,%v,%v", x, y, rx, ry, rot, a0, a1))
}
func (p *Platform) Font(props map[string]any) {
	keys := []string{"family", "size", "weight", "style", "baseline", "align", "letterspacing"}
	var sb strings.Builder
	n := 0
	for _, k := range keys {
		if v, ok := props[k]; ok {
			fmt.Fprintf(&sb, "%s=%v;", k, v)
			n++
		}
	}
	if n != len(props) {
		fmt.Fprintf(&sb, "extra=%d", len(props)-n)
	}
	p.add("font:" + sb.String())
}
func (p *Platform) Yielder() evaluator.Yielder {
	if p.Y == nil || p.NoYield {
		return nil
	}
	return p.Y
}

// Yielder counts yields, optionally logs them into the platform log, provides
// fuel, and can raise the stop flag inside a chosen yield.
type Yielder struct {
	Ev      *evaluator.Evaluator
	P       *Platform
	Count   int
	Fuel    int  // if >0: set Stopped when Count reaches Fuel
	StopAt  int  // if >0: set Stopped inside the StopAt-th yield (1-based)
	LogMark bool // append "yield" lines to the platform log
	FuelOut bool

	effects          int
	stoppedAt        int // yield count when the flag was raised, -1 if not
	YieldsAfterStop  int
	EffectsAfterStop int
	AbortAfter       int // if >0: panic(ErrTooMuch) when this many yields/effects follow the stop
}

// NewYielder makes a yielder with the stop state cleared.
func NewYielder() *Yielder { return &Yielder{stoppedAt: -1} }

// Stopped reports whether this yielder raised the flag.
func (y *Yielder) Stopped() bool { return y.stoppedAt >= 0 }

var heapSample = []metrics.Sample{{Name: "/memory/classes/heap/objects:bytes"}}

// heapTooLarge reports whether the live heap exceeds the harness's budget. A
// generated or mutated program may legitimately build huge values (s = s + s
// in a loop); the run is then abandoned like one that runs out of fuel.
func heapTooLarge() bool {
	metrics.Read(heapSample)
	if heapSample[0].Value.Kind() != metrics.KindUint64 || heapSample[0].Value.Uint64() <= 1<<28 {
		return false
	}
	// the figure includes garbage of earlier cases that has not been swept yet:
	// collect and look again, so that the verdict depends on this run only
	runtime.GC()
	metrics.Read(heapSample)
	return heapSample[0].Value.Uint64() > 1<<28
}

// YieldTicks counts every Yield of every run of the process: a watchdog can tell a run that
// is slow (the counter moves) from one that does not yield at all.
var YieldTicks atomic.Int64

func (y *Yielder) Yield() {
	y.Count++
	YieldTicks.Add(1)
	if y.Count%8 == 0 && y.stoppedAt < 0 && y.Fuel > 0 && heapTooLarge() {
		y.stoppedAt = y.Count
		y.FuelOut = true
		y.Ev.Stopped = true
	}
	if y.stoppedAt >= 0 {
		y.YieldsAfterStop++
		if y.AbortAfter > 0 && y.YieldsAfterStop+y.EffectsAfterStop > y.AbortAfter {
			panic(ErrTooMuch)
		}
	}
	if y.LogMark && y.P != nil {
		y.P.Log = append(y.P.Log, "yield")
	}
	if y.stoppedAt < 0 {
		if y.StopAt > 0 && y.Count == y.StopAt {
			y.stoppedAt = y.Count
			y.Ev.Stopped = true
		} else if y.Fuel > 0 && y.Count >= y.Fuel {
			y.stoppedAt = y.Count
			y.FuelOut = true
			y.Ev.Stopped = true
		}
	}
}

// Outcome classifies how a run ended.
type Outcome struct {
	Class string // see Classify
	Msg   string
	Stack string // for gopanic
}

func (o Outcome) String() string {
	if o.Msg == "" {
		return o.Class
	}
	return o.Class + " (" + o.Msg + ")"
}

// Classify maps an error returned by Eval/HandleEvent to an outcome class.
func Classify(err error) Outcome {
	if err == nil {
		return Outcome{Class: "ok"}
	}
	msg := err.Error()
	var exit evaluator.ExitError
	var pe evaluator.PanicError
	var te evaluator.TestErrors
	var perrs parser.Errors
	switch {
	case errors.As(err, &perrs):
		return Outcome{Class: "parse", Msg: msg}
	case errors.Is(err, evaluator.ErrStopped):
		return Outcome{Class: "stopped", Msg: msg}
	case errors.As(err, &exit):
		return Outcome{Class: "exit:" + strconv.Itoa(int(exit)), Msg: msg}
	case errors.Is(err, evaluator.ErrInternal):
		return Outcome{Class: "internal", Msg: msg}
	case errors.As(err, &te):
		return Outcome{Class: "test", Msg: msg}
	case errors.Is(err, evaluator.ErrTest):
		return Outcome{Class: "test", Msg: msg}
	case errors.Is(err, evaluator.ErrBounds):
		return Outcome{Class: "panic:bounds", Msg: msg}
	case errors.Is(err, evaluator.ErrIndexValue):
		return Outcome{Class: "panic:index", Msg: msg}
	case errors.Is(err, evaluator.ErrSlice):
		return Outcome{Class: "panic:slice", Msg: msg}
	case errors.Is(err, evaluator.ErrMapKey):
		return Outcome{Class: "panic:mapkey", Msg: msg}
	case errors.Is(err, evaluator.ErrRangevalue):
		return Outcome{Class: "panic:rangevalue", Msg: msg}
	case errors.Is(err, evaluator.ErrBadArguments):
		return Outcome{Class: "panic:badargs", Msg: msg}
	case errors.Is(err, evaluator.ErrBadRepetition):
		return Outcome{Class: "panic:badrepetition", Msg: msg}
	case errors.Is(err, evaluator.ErrAnyConversion):
		return Outcome{Class: "panic:anyconv", Msg: msg}
	case errors.Is(err, evaluator.ErrVarNotSet):
		return Outcome{Class: "panic:varnotset", Msg: msg}
	case errors.As(err, &pe):
		return Outcome{Class: "panic:user", Msg: msg}
	case errors.Is(err, evaluator.ErrPanic):
		return Outcome{Class: "panic:other", Msg: msg}
	}
	return Outcome{Class: "othererr", Msg: msg}
}

// Opts configures one run.
type Opts struct {
	Inputs     []string
	Fuel       int   // yields; 0 = default 200000
	MaxLog     int   // effects; 0 = default 20000
	RandSeed   int64 // 0 = 1
	StopAt     int
	LogYield   bool
	FailFast   bool
	NoSummary  bool
	AbortAfter int
}

// Result is everything observable about one run.
type Result struct {
	ParseErrs parser.Errors
	Prog      *parser.Program
	Out       Outcome
	Trace     []string
	Yields    int
	FuelOut   bool
	TooMuch   bool
	Y         *Yielder
	Ev        *evaluator.Evaluator
	P         *Platform
}

// Builtins returns the built-in declarations (fresh copy each call, as the CLI does).
func Builtins() parser.Builtins { return evaluator.BuiltinDecls() }

// SafeParse parses inside recover. A Go panic is returned as a gopanic outcome.
func SafeParse(src string) (prog *parser.Program, errs parser.Errors, crash *Outcome) {
	defer func() {
		if r := recover(); r != nil {
			crash = &Outcome{Class: "gopanic", Msg: fmt.Sprint(r), Stack: string(debug.Stack())}
		}
	}()
	p, err := parser.Parse(src, Builtins())
	if err != nil {
		var pe parser.Errors
		if errors.As(err, &pe) {
			return nil, pe, nil
		}
		return nil, nil, &Outcome{Class: "othererr", Msg: err.Error()}
	}
	return p, nil, nil
}

// Run parses and evaluates src on a fresh recording platform.
func Run(src string, o Opts) *Result {
	res := &Result{}
	prog, errs, crash := SafeParse(src)
	if crash != nil {
		res.Out = *crash
		return res
	}
	if errs != nil {
		res.ParseErrs = errs
		res.Out = Outcome{Class: "parse", Msg: errs.Error()}
		return res
	}
	res.Prog = prog
	return RunProg(prog, o, res)
}

// RunProg evaluates an already parsed program.
func RunProg(prog *parser.Program, o Opts, res *Result) *Result {
	if res == nil {
		res = &Result{Prog: prog}
	}
	if o.Fuel == 0 {
		o.Fuel = 200000
	}
	if o.MaxLog == 0 {
		o.MaxLog = 20000
	}
	if o.RandSeed == 0 {
		o.RandSeed = 1
	}
	y := NewYielder()
	p := &Platform{Inputs: o.Inputs, Y: y, MaxLog: o.MaxLog}
	y.P = p
	y.Fuel = o.Fuel
	y.StopAt = o.StopAt
	y.LogMark = o.LogYield
	y.AbortAfter = o.AbortAfter
	evaluator.RandSource = rand.New(rand.NewSource(o.RandSeed)) //nolint:gosec
	e := evaluator.NewEvaluator(p)
	e.TestInfo.FailFast = o.FailFast
	e.TestInfo.NoTestSummary = o.NoSummary
	y.Ev = e
	res.Ev, res.P, res.Y = e, p, y
	func() {
		defer func() {
			if r := recover(); r != nil {
				if err, ok := r.(error); ok && errors.Is(err, ErrTooMuch) {
					res.TooMuch = true
					res.Out = Outcome{Class: "toomuch"}
					return
				}
				res.Out = Outcome{Class: "gopanic", Msg: fmt.Sprint(r), Stack: string(debug.Stack())}
			}
		}()
		err := e.Eval(prog)
		res.Out = Classify(err)
	}()
	res.Trace = p.Log
	res.Yields = y.Count
	res.FuelOut = y.FuelOut
	return res
}

// Event delivers one event inside recover and returns the outcome.
func (r *Result) Event(name string, params ...any) Outcome {
	var out Outcome
	func() {
		defer func() {
			if rr := recover(); rr != nil {
				if err, ok := rr.(error); ok && errors.Is(err, ErrTooMuch) {
					r.TooMuch = true
					out = Outcome{Class: "toomuch"}
					return
				}
				out = Outcome{Class: "gopanic", Msg: fmt.Sprint(rr), Stack: string(debug.Stack())}
			}
		}()
		out = Classify(r.Ev.HandleEvent(evaluator.Event{Name: name, Params: params}))
	}()
	r.Trace = r.P.Log
	r.Yields = r.Y.Count
	r.FuelOut = r.Y.FuelOut
	return out
}

// PrintText concatenates the text of all print effects of a trace.
func PrintText(trace []string) string {
	var sb strings.Builder
	for _, l := range trace {
		if strings.HasPrefix(l, "print:") {
			sb.WriteString(l[len("print:"):])
		}
	}
	return sb.String()
}

// TopFrame returns the innermost evylang.dev/evy function in a Go stack trace.
func TopFrame(stack string) string {
	for _, line := range strings.Split(stack, "\n") {
		line = strings.TrimSpace(line)
		if strings.HasPrefix(line, "evylang.dev/evy/") {
			if i := strings.LastIndex(line, "("); i > 0 {
				line = line[:i]
			}
			return strings.TrimPrefix(line, "evylang.dev/evy/")
		}
	}
	return ""
}

// WalkNodes calls f for every AST node reachable from root through exported fields.
func WalkNodes(root any, f func(parser.Node)) {
	seen := map[uintptr]bool{}
	var walk func(v reflect.Value)
	walk = func(v reflect.Value) {
		switch v.Kind() {
		case reflect.Interface:
			if !v.IsNil() {
				walk(v.Elem())
			}
		case reflect.Ptr:
			if v.IsNil() || seen[v.Pointer()] {
				return
			}
			seen[v.Pointer()] = true
			if v.CanInterface() {
				if n, ok := v.Interface().(parser.Node); ok {
					f(n)
				}
			}
			walk(v.Elem())
		case reflect.Struct:
			for i := 0; i < v.NumField(); i++ {
				if v.Type().Field(i).IsExported() {
					walk(v.Field(i))
				}
			}
		case reflect.Slice, reflect.Array:
			for i := 0; i < v.Len(); i++ {
				walk(v.Index(i))
			}
		case reflect.Map:
			for _, k := range v.MapKeys() {
				walk(v.MapIndex(k))
			}
		}
	}
	walk(reflect.ValueOf(root))
}

// UnboundedRepetition reports whether prog contains an array repetition whose count is
// not a small literal (finding F53: the evaluator allocates the whole result at once,
// a large count exhausts the memory of the host).
func UnboundedRepetition(prog *parser.Program) bool {
	found := false
	WalkNodes(prog, func(n parser.Node) {
		b, ok := n.(*parser.BinaryExpression)
		if !ok || b.Op != parser.OP_ASTERISK || b.Left == nil || b.Left.Type() == nil || b.Left.Type().Name != parser.ARRAY {
			return
		}
		if lit, ok := b.Right.(*parser.NumLiteral); ok && lit.Value <= 10 {
			return
		}
		found = true
	})
	return found
}
