package p14

import (
	"fmt"
	"regexp"
	"strconv"
	"strings"
	"testing"

	"pgregory.net/rapid"
	"verif/harness/h"
	"verif/harness/rec"
)

// TestSummary: "only the summary of the tests run so far may follow" the stop. Each test's
// argument is a call that announces itself, yields a few times and announces its return,
// so a stop raised in between is known to lie before that test was run: the summary that
// follows the stop must count exactly the tests before it, with the right number of failures.

var sumRE = regexp.MustCompile(`(\d+) (passed|failed) tests?`)

func summaryCounts(tr []string) (passed, failed int, present bool) {
	for _, l := range tr {
		if !isSummaryLine(l) {
			continue
		}
		for _, mm := range sumRE.FindAllStringSubmatch(l, -1) {
			n, _ := strconv.Atoi(mm[1])
			present = true
			if mm[2] == "passed" {
				passed = n
			} else {
				failed = n
			}
		}
	}
	return
}

func isSummaryLine(e string) bool {
	return strings.HasPrefix(e, "print:✅") || strings.HasPrefix(e, "print:❌") || strings.HasPrefix(e, "print:✔️")
}

// SummaryCase is a program of n tests (Fails[i]: test i fails) and a stop point.
type SummaryCase struct {
	Fails  []bool `json:"fails"`
	Spins  int    `json:"spins"`
	StopAt int    `json:"stop_at"`
}

func (c SummaryCase) src() string {
	var sb strings.Builder
	sb.WriteString("func arg:num n:num\n    print \"in\" n\n    for range " + strconv.Itoa(c.Spins) + "\n        print \"spin\"\n    end\n    print \"out\" n\n    return n\nend\n")
	for i, f := range c.Fails {
		want := i + 1
		if f {
			want = -1
		}
		sb.WriteString(fmt.Sprintf("test %d (arg %d)\nprint \"after\" %d\n", want, i+1, i+1))
	}
	return sb.String()
}

func checkSummary(c SummaryCase) (*h.Failure, bool) {
	src := c.src()
	res := rec.Run(src, rec.Opts{StopAt: c.StopAt, Fuel: 100000, AbortAfter: 10000})
	mk := func(kind, detail string) *h.Failure {
		return &h.Failure{Kind: "summary-" + kind, Detail: detail, Src: src, Case: map[string]any{"summary": c}}
	}
	if res.Out.Class == "gopanic" || res.Out.Class == "parse" || res.Out.Class == "internal" {
		return mk(res.Out.Class, res.Out.Msg), false
	}
	if !res.Y.Stopped() {
		return nil, false
	}
	in, out := 0, 0
	for _, l := range res.Trace {
		if strings.HasPrefix(l, "print:in ") {
			in++
		}
		if strings.HasPrefix(l, "print:out ") {
			out++
		}
	}
	if in == out {
		return nil, false // between two tests: the stop may lie on either side of the test that follows "out"
	}
	run := in - 1 // tests completed before the one whose argument was being evaluated
	wantFailed := 0
	for i := 0; i < run; i++ {
		if c.Fails[i] {
			wantFailed++
		}
	}
	passed, failed, present := summaryCounts(res.Trace)
	if !present {
		passed, failed = 0, 0
	}
	if passed+failed != run || failed != wantFailed {
		return mk("counts", fmt.Sprintf("stop raised in yield %d, while the argument of test %d was being evaluated: %d tests had run (%d of them failing), the summary after the stop reports %d passed and %d failed", c.StopAt, in, run, wantFailed, passed, failed)), true
	}
	return nil, true
}

func TestSummary(t *testing.T) {
	if h.ReplayPath() != "" {
		t.Skip("replay run")
	}
	ctx := h.Setup(t, "C14")
	rapid.Check(t, func(t *rapid.T) {
		c := SummaryCase{Spins: rapid.IntRange(1, 4).Draw(t, "spins")}
		n := rapid.IntRange(1, 6).Draw(t, "ntests")
		for i := 0; i < n; i++ {
			c.Fails = append(c.Fails, rapid.IntRange(0, 2).Draw(t, "fails") == 0)
		}
		full := rec.Run(c.src(), rec.Opts{Fuel: 100000})
		for k := 1; k <= full.Yields; k++ {
			ck := c
			ck.StopAt = k
			fl, decided := checkSummary(ck)
			ctx.Rec.Case(decided, fmt.Sprintf("summary%v/%d@%d", c.Fails, c.Spins, k), "summary:stop-inside-test-argument="+strconv.FormatBool(decided))
			ctx.Report(t, fl)
		}
		ctx.Rec.Add("summary_programs_with_every_stop_point", 1)
	})
}
