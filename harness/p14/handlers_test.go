package p14

import (
	"fmt"
	"testing"
	"time"

	"pgregory.net/rapid"
	"verif/harness/eng"
	"verif/harness/gen"
	"verif/harness/h"
	"verif/harness/m"
	"verif/harness/rec"
)

// TestHandlers: the same two statements for the part of a run that happens inside an event
// handler. The program's top level completes; then an event is delivered. Inside the
// handler the evaluator must yield at least once per loop iteration and call, and a stop
// raised at any of those yields ends the delivery with 'stopped', without further effects,
// the effects so far being a prefix of the undisturbed delivery. An endless handler must stop too.

func segmentDensity(seg []string) (kind, detail string, markers, yields int) {
	yieldsSince := 1
	for i, l := range seg {
		if l == "yield" {
			yields++
			yieldsSince++
			continue
		}
		if l == "print:@iter\n" || l == "print:@call\n" {
			markers++
			if yieldsSince == 0 {
				return "no-yield-between-markers", fmt.Sprintf("inside the handler, log entry %d: marker %d follows the previous marker without any Yield in between", i, markers), markers, yields
			}
			yieldsSince = 0
		}
	}
	if yields < markers {
		return "too-few-yields", fmt.Sprintf("inside the handler: %d yields for %d loop iterations and calls", yields, markers), markers, yields
	}
	return "", "", markers, yields
}

func effectsOf(seg []string) []string {
	var out []string
	for _, l := range seg {
		if l != "yield" {
			out = append(out, l)
		}
	}
	return out
}

// checkHandler checks one stop point (StopAt counts yields from the start of the delivery; 0: density only).
func checkHandler(c Case) (*h.Failure, int, int) {
	mk := func(kind, detail string) *h.Failure {
		return &h.Failure{Kind: "handler-" + kind, Detail: detail, Src: c.Src, Case: c}
	}
	full := rec.Run(c.Src, rec.Opts{LogYield: true, Fuel: 60000, MaxLog: 200000})
	if full.Out.Class != "ok" || full.FuelOut || full.TooMuch || full.Ev == nil {
		return nil, 0, 0
	}
	has := false
	for _, n := range full.Ev.EventHandlerNames {
		has = has || n == "key"
	}
	if !has {
		return nil, 0, 0
	}
	y0, l0 := full.Yields, len(full.Trace)
	out := full.Event("key", "x")
	if out.Class == "gopanic" || out.Class == "internal" {
		return mk(out.Class, out.Msg), 0, 0
	}
	seg := full.Trace[l0:]
	kind, detail, markers, yields := segmentDensity(seg)
	if kind != "" {
		return mk(kind, detail), markers, yields
	}
	if c.Endless && !full.FuelOut && !full.TooMuch {
		if out.Class != "ok" {
			return nil, 0, 0 // the generated handler body fails before it reaches its endless loop
		}
		return mk("endless-handler-ended", "a handler with an endless loop returned by itself with "+out.String()), markers, yields
	}
	if c.StopAt == 0 {
		return nil, markers, yields
	}
	r := rec.Run(c.Src, rec.Opts{StopAt: y0 + c.StopAt, Fuel: 60000, MaxLog: 200000, AbortAfter: 10000})
	if r.Out.Class != "ok" || r.Y.Stopped() {
		return nil, markers, yields // the top level itself did not complete in this run
	}
	n0 := len(r.P.Log)
	sout := r.Event("key", "x")
	if r.TooMuch {
		return mk("keeps-running-after-stop", fmt.Sprintf("stop flag raised in yield %d of the delivery; more than 10000 further yields/effects followed", c.StopAt)), markers, yields
	}
	if !r.Y.Stopped() {
		if c.StopAt <= yields {
			return mk("stop-point-not-reached", fmt.Sprintf("the undisturbed delivery yields %d times, but a stop at its yield %d was never raised: the delivery ended with %s", yields, c.StopAt, sout)), markers, yields
		}
		return nil, markers, yields
	}
	if sout.Class != "stopped" {
		return mk("not-stopped", fmt.Sprintf("stop flag raised inside yield %d of the delivery, but HandleEvent returned %s instead of the 'stopped' result", c.StopAt, sout)), markers, yields
	}
	if r.Y.EffectsAfterStop > 0 {
		return mk("effect-after-stop", fmt.Sprintf("stop flag raised inside yield %d of the delivery; %d further platform effect(s) followed", c.StopAt, r.Y.EffectsAfterStop)), markers, yields
	}
	if r.Y.YieldsAfterStop > 1 {
		return mk("yields-after-stop", fmt.Sprintf("stop flag raised inside yield %d of the delivery; %d further yields followed", c.StopAt, r.Y.YieldsAfterStop)), markers, yields
	}
	got, want := r.P.Log[n0:], effectsOf(seg)
	if len(got) > len(want) {
		return mk("not-a-prefix", fmt.Sprintf("the stopped delivery has %d effects, the undisturbed one %d", len(got), len(want))), markers, yields
	}
	if d := eng.DiffTrace(want[:len(got)], got); d != "" {
		return mk("not-a-prefix", "effects of the stopped delivery are not a prefix of the undisturbed one: "+d), markers, yields
	}
	return nil, markers, yields
}

func TestHandlers(t *testing.T) {
	if h.ReplayPath() != "" {
		t.Skip("replay run")
	}
	ctx := h.Setup(t, "C14")
	rapid.Check(t, func(t *rapid.T) {
		cfg := gen.Default
		cfg.Loops, cfg.Funcs, cfg.IterMarks = true, true, true
		cfg.ExprDepth, cfg.BlockDepth, cfg.MaxStmts = 1, 2, 3
		g := gen.New(t, cfg)
		p := g.Program()
		hd := g.Handler("key", 2)
		endless := rapid.IntRange(0, 3).Draw(t, "endless") == 0
		if endless {
			body := []m.Stmt{gen.Print(m.StrLit("@iter")), gen.Print(m.StrLit("spin"))}
			if rapid.IntRange(0, 2).Draw(t, "quiet") == 0 {
				body = []m.Stmt{&m.Blank{Comment: "busy wait"}}
			}
			hd.Body = append(hd.Body, &m.While{Cond: m.BoolLit(true), Body: body})
		}
		p.Items = append(p.Items, m.Item{H: hd})
		have := map[string]bool{}
		for _, it := range p.Items {
			if it.F != nil {
				have[it.F.Name] = true
			}
		}
		for _, f := range g.Funcs {
			if !have[f.Name] {
				p.Items = append(p.Items, m.Item{F: f})
			}
		}
		src, _ := m.Render(p, eng.RapidLayout{T: t, Calm: true})
		c := Case{Src: src, Endless: endless, Handler: true}
		done := h.WatchProgress(src, rec.YieldTicks.Load, 3*time.Minute, &h.Failure{Property: "C14", Kind: "handler-never-yields", Detail: "the delivery of an event did not yield for 3 minutes: the handler runs a loop without yielding", Src: src, Case: c})
		defer done()
		fl, markers, yields := checkHandler(c)
		ctx.Report(t, fl)
		if yields == 0 && markers == 0 {
			ctx.Rec.Case(false, src, "handler:not-run")
			return
		}
		var points []int
		if endless {
			for i := 0; i < 25; i++ {
				points = append(points, 1+rapid.IntRange(0, 2000).Draw(t, "k"))
			}
		} else if yields <= 150 {
			for k := 1; k <= yields; k++ {
				points = append(points, k)
			}
			ctx.Rec.Add("handlers_with_every_stop_point", 1)
		} else {
			for i := 0; i < 100; i++ {
				points = append(points, rapid.IntRange(1, yields).Draw(t, "k"))
			}
		}
		for _, k := range points {
			ck := c
			ck.StopAt = k
			fl, _, _ := checkHandler(ck)
			cls := "terminating"
			if endless {
				cls = "endless"
			}
			ctx.Rec.Case(markers > 0 || endless, fmt.Sprintf("h%x@%d", h64(src), k), "handler:"+cls)
			ctx.Report(t, fl)
		}
		if ctx.Rec.WantSample() && len(src) < 700 {
			ctx.Rec.Sample(map[string]any{"src": src, "handler_stop_points": len(points), "endless_handler": endless})
		}
	})
}
