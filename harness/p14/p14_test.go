// Package p14 decides C14: running programs stay interruptible and stop cleanly.
package p14

import (
	"fmt"
	"os"
	"strings"
	"testing"
	"time"

	"pgregory.net/rapid"
	"verif/harness/eng"
	"verif/harness/gen"
	"verif/harness/h"
	"verif/harness/m"
	"verif/harness/rec"
)

// Case is a source text plus one stop point (0 = yield density only).
type Case struct {
	Src     string       `json:"src"`
	StopAt  int          `json:"stop_at"`
	Endless bool         `json:"endless"`
	Summary *SummaryCase `json:"summary,omitempty"`          // TestSummary
	Handler bool         `json:"handler,omitempty"`          // the stop point lies inside the delivery of a key event (TestHandlers)
	Quiet   int          `json:"quiet_iterations,omitempty"` // iterations of loops whose body has no statement (no marker): each must still yield
	Markers int          `json:"markers"`                    // loop iterations + calls predicted by the reference run (0 = unknown)
}

func isSummary(e string) bool {
	return strings.HasPrefix(e, "print:✅") || strings.HasPrefix(e, "print:❌")
}

func stripSummary(tr []string) []string {
	if n := len(tr); n > 0 && isSummary(tr[n-1]) {
		return tr[:n-1]
	}
	return tr
}

type fullRun struct {
	trace  []string
	yields int
	class  string
}

// density checks the uninterrupted run: at least one yield between any two
// consecutive loop-iteration / call markers, and no fewer yields than markers.
func density(c Case) (*h.Failure, *fullRun) {
	res := rec.Run(c.Src, rec.Opts{LogYield: true, Fuel: 400000, MaxLog: 600000})
	mk := func(kind, detail string) *h.Failure {
		return &h.Failure{Kind: kind, Detail: detail, Src: c.Src, Case: c, Callsite: rec.TopFrame(res.Out.Stack)}
	}
	if res.Out.Class == "gopanic" || res.Out.Class == "parse" || res.Out.Class == "internal" {
		return mk(res.Out.Class, res.Out.Msg), nil
	}
	if res.FuelOut || res.TooMuch {
		return nil, nil
	}
	markers, yieldsSince := 0, 1
	var effects []string
	for i, l := range res.Trace {
		if l == "yield" {
			yieldsSince++
			continue
		}
		effects = append(effects, l)
		if l == "print:@iter\n" || l == "print:@call\n" {
			markers++
			if yieldsSince == 0 {
				return mk("no-yield-between-markers", fmt.Sprintf("log entry %d: loop iteration / call marker %d follows the previous marker without any Yield in between", i, markers)), nil
			}
			yieldsSince = 0
		}
	}
	if res.Yields < markers+c.Quiet {
		return mk("too-few-yields", fmt.Sprintf("%d yields for %d loop iterations and calls (%d of them iterations of loops without a statement in the body)", res.Yields, markers+c.Quiet, c.Quiet)), nil
	}
	if c.Markers > 0 && res.Out.Class == "ok" && markers != c.Markers {
		return mk("marker-count", fmt.Sprintf("the run shows %d loop iterations and calls, the language definition prescribes %d", markers, c.Markers)), nil
	}
	return nil, &fullRun{trace: effects, yields: res.Yields, class: res.Out.Class}
}

// stop checks one stop point against the uninterrupted run (full may be nil for endless programs).
func stop(c Case, full *fullRun) *h.Failure {
	res := rec.Run(c.Src, rec.Opts{StopAt: c.StopAt, Fuel: 400000, MaxLog: 600000, AbortAfter: 10000})
	mk := func(kind, detail string) *h.Failure {
		return &h.Failure{Kind: kind, Detail: detail, Src: c.Src, Case: c, Callsite: rec.TopFrame(res.Out.Stack)}
	}
	if res.Out.Class == "gopanic" {
		return mk("gopanic", res.Out.Msg)
	}
	if res.TooMuch {
		return mk("keeps-running-after-stop", fmt.Sprintf("stop flag raised in yield %d; more than 10000 further yields/effects followed", c.StopAt))
	}
	if !res.Y.Stopped() {
		if c.Endless {
			return mk("endless-program-ended", "an endless program ended by itself with "+res.Out.String())
		}
		return nil // the run ended before yield k
	}
	if res.FuelOut {
		return nil
	}
	if res.Out.Class != "stopped" {
		return mk("not-stopped", fmt.Sprintf("stop flag raised inside yield %d of %d, but Eval returned %s instead of the 'stopped' result", c.StopAt, res.Yields, res.Out))
	}
	after := res.Y.EffectsAfterStop
	tr := res.Trace
	if after > 0 && isSummary(tr[len(tr)-1]) {
		after--
	}
	if after > 0 {
		return mk("effect-after-stop", fmt.Sprintf("stop flag raised inside yield %d; %d further platform effect(s) followed, the last one %q", c.StopAt, after, tr[len(tr)-1]))
	}
	if res.Y.YieldsAfterStop > 1 {
		return mk("yields-after-stop", fmt.Sprintf("stop flag raised inside yield %d; %d further yields followed", c.StopAt, res.Y.YieldsAfterStop))
	}
	if full != nil {
		got := stripSummary(tr)
		want := stripSummary(full.trace)
		if len(got) > len(want) {
			return mk("not-a-prefix", fmt.Sprintf("stopped run has %d effects, the uninterrupted run %d", len(got), len(want)))
		}
		if d := eng.DiffTrace(want[:len(got)], got); d != "" {
			return mk("not-a-prefix", "effects of the stopped run are not a prefix of the uninterrupted run: "+d)
		}
	}
	// a later event delivery must also report 'stopped' and do nothing
	if res.Ev != nil && len(res.Ev.EventHandlerNames) > 0 {
		n := len(res.P.Log)
		out := res.Event("key", "x")
		if out.Class != "stopped" || len(res.P.Log) != n {
			return mk("event-after-stop", fmt.Sprintf("HandleEvent after the stop returned %s and produced %d effects", out, len(res.P.Log)-n))
		}
	}
	return nil
}

func checkCase(c Case) *h.Failure {
	if c.Summary != nil {
		fl, _ := checkSummary(*c.Summary)
		return fl
	}
	if c.Handler {
		fl, _, _ := checkHandler(c)
		return fl
	}
	if c.Endless {
		return stop(c, nil)
	}
	fl, full := density(c)
	if fl != nil || full == nil || c.StopAt == 0 {
		return fl
	}
	return stop(c, full)
}

func TestProp(t *testing.T) {
	if h.ReplayPath() != "" {
		t.Skip("replay run")
	}
	ctx := h.Setup(t, "C14")
	rapid.Check(t, func(t *rapid.T) {
		cfg := gen.Default
		cfg.Loops, cfg.Funcs, cfg.IterMarks, cfg.Tests, cfg.Recursion = true, true, true, true, rapid.Bool().Draw(t, "recursion")
		cfg.ExprDepth = 1 + rapid.IntRange(0, 1).Draw(t, "exprdepth")
		cfg.BlockDepth = 2 + rapid.IntRange(0, 1).Draw(t, "blockdepth")
		cfg.MaxStmts = 4
		g := gen.New(t, cfg)
		p := g.Program()
		withHandler := rapid.Bool().Draw(t, "handler")
		if withHandler {
			p.Items = append(p.Items, m.Item{H: &m.Handler{Event: "key", Params: []m.Param{{Name: "k", Ty: m.TStr}}, Body: []m.Stmt{gen.Print(m.StrLit("key"), &m.Var{Name: "k", Ty: m.TStr})}}})
		}
		endless := rapid.IntRange(0, 3).Draw(t, "endless") == 0
		if endless {
			// the program only spins forever if its finite part completes
			if _, out, _ := eng.Reference(p, nil); out.Class != "ok" {
				endless = false
			}
		}
		// a loop whose body has no statement: blank lines and comments only
		quietBody := func() []m.Stmt {
			switch rapid.IntRange(0, 3).Draw(t, "quietbody") {
			case 0:
				return []m.Stmt{&m.Blank{Comment: "nothing to do"}}
			case 1:
				return []m.Stmt{&m.Blank{}}
			case 2:
				return []m.Stmt{&m.Blank{}, &m.Blank{Comment: "busy wait"}, &m.Blank{}}
			}
			return []m.Stmt{&m.Blank{Comment: "todo"}, &m.Blank{Comment: "later"}} // (a block needs at least one line)
		}
		quiet := 0
		if !endless && rapid.IntRange(0, 2).Draw(t, "quietloop") == 0 {
			n := rapid.IntRange(1, 300).Draw(t, "quietn")
			f := &m.ForNum{Stop: m.NumLit(float64(n)), Body: quietBody()}
			var st m.Stmt = f
			if rapid.IntRange(0, 3).Draw(t, "quietover") == 0 {
				st = &m.ForIn{V: f.V, X: m.StrLit(strings.Repeat("x", n)), Body: f.Body}
			}
			p.Items = append(p.Items, m.Item{S: st})
			quiet = n
		}
		if endless {
			body := []m.Stmt{gen.Print(m.StrLit("@iter")), gen.Print(m.StrLit("spin"))}
			if rapid.IntRange(0, 2).Draw(t, "quietforever") == 0 {
				body = quietBody()
			}
			if rapid.Bool().Draw(t, "forever-for") {
				big := &m.Binary{Op: "*", L: m.NumLit(1e150), R: m.NumLit(1e150), Ty: m.TNum}
				p.Items = append(p.Items, m.Item{S: &m.ForNum{Stop: big, Body: body}})
			} else {
				p.Items = append(p.Items, m.Item{S: &m.While{Cond: m.BoolLit(true), Body: body}})
			}
		}
		src, _ := m.Render(p, eng.RapidLayout{T: t, Calm: true})
		c := Case{Src: src, Endless: endless}
		// a loop that never yields cannot be given a budget from outside: the run would never come back
		done := h.WatchProgress(src, rec.YieldTicks.Load, 3*time.Minute, &h.Failure{Property: "C14", Kind: "never-yields", Detail: "the run did not yield for 3 minutes: every budget of the harness is checked in Yield, so some loop runs without yielding", Src: src, Case: c})
		defer done()
		var full *fullRun
		if !endless {
			_, out, in := eng.Reference(p, nil)
			if eng.Skip(out) {
				ctx.Rec.Case(false, src, "skipped:"+out.Class)
				return
			}
			if out.Class == "ok" || out.Class == "test" {
				// markers printed by the reference = iterations + calls of marked bodies
				n := 0
				for _, l := range in.Log {
					if l == "print:@iter\n" || l == "print:@call\n" {
						n++
					}
				}
				if out.Class == "ok" {
					c.Markers = n
					c.Quiet = quiet
				}
			}
			var fl *h.Failure
			fl, full = density(c)
			ctx.Report(t, fl)
			if full == nil {
				ctx.Rec.Case(false, src, "skipped:fuel")
				return
			}
		}
		// stop points
		var points []int
		if endless {
			base := 1
			for i := 0; i < 40; i++ {
				points = append(points, base+rapid.IntRange(0, 3000).Draw(t, "k"))
			}
		} else if full.yields <= 400 {
			for k := 1; k <= full.yields; k++ {
				points = append(points, k)
			}
			ctx.Rec.Add("programs_with_every_stop_point", 1)
		} else {
			points = append(points, 1, full.yields)
			for i := 0; i < 200; i++ {
				points = append(points, rapid.IntRange(1, full.yields).Draw(t, "k"))
			}
		}
		for _, k := range points {
			ck := c
			ck.StopAt = k
			var fl *h.Failure
			if endless {
				fl = stop(ck, nil)
			} else {
				fl = stop(ck, full)
			}
			nontrivial := endless || strings.Contains(src, "@call") || strings.Contains(src, "@iter")
			cls := "terminating"
			if endless {
				cls = "endless"
			}
			ctx.Rec.Case(nontrivial, fmt.Sprintf("%x@%d", h64(src), k), "program:"+cls)
			if fl != nil && ctx.Rec.WantSample() {
				_ = fl
			}
			ctx.Report(t, fl)
		}
		if ctx.Rec.WantSample() && len(src) < 900 {
			ctx.Rec.Sample(map[string]any{"src": src, "stop_points": len(points), "endless": endless})
		}
	})
}

func h64(s string) uint64 {
	var x uint64 = 1469598103934665603
	for i := 0; i < len(s); i++ {
		x ^= uint64(s[i])
		x *= 1099511628211
	}
	return x
}

func TestReplay(t *testing.T) {
	path := h.ReplayPath()
	if path == "" {
		t.Skip("no replay requested")
	}
	ctx := h.Setup(t, "C14")
	var c Case
	if _, err := h.LoadReplay(path, &c); err != nil {
		t.Fatalf("cannot load replay: %v", err)
	}
	// a case that never yields never comes back: decide it by the clock, as the search does
	ch := make(chan *h.Failure, 1)
	go func() { ch <- checkCase(c) }()
	last, since := rec.YieldTicks.Load(), time.Now()
	for {
		select {
		case fl := <-ch:
			ctx.FinishReplay(t, fl)
			return
		case <-time.After(2 * time.Second):
		}
		if now := rec.YieldTicks.Load(); now != last {
			last, since = now, time.Now()
		} else if time.Since(since) >= 2*time.Minute {
			kind := "never-yields"
			if c.Handler {
				kind = "handler-never-yields"
			}
			ctx.FinishReplay(t, &h.Failure{Kind: kind, Detail: "the run did not yield for 2 minutes: some loop runs without yielding", Src: c.Src, Case: c})
			os.Exit(0) // the spinning goroutine cannot be stopped
		}
	}
}
