// Package fmtx holds what the formatter checks (C06, C07) share: formatting
// through the real parser, significant-token extraction, whitespace-only
// re-layout, and the shape rules of canonical text.
package fmtx

import (
	"fmt"
	"runtime/debug"
	"strconv"
	"strings"
	"unicode"

	"evylang.dev/evy/pkg/lexer"
	"evylang.dev/evy/pkg/parser"
	"pgregory.net/rapid"
	"verif/harness/rec"
	"verif/harness/srcmut"
)

// Format parses src and formats it. accepted is false if src does not parse.
func Format(src string) (out string, prog *parser.Program, accepted bool, crash *rec.Outcome) {
	prog, errs, c := rec.SafeParse(src)
	if c != nil {
		return "", nil, false, c
	}
	if errs != nil {
		return "", nil, false, nil
	}
	defer func() {
		if r := recover(); r != nil {
			crash = &rec.Outcome{Class: "gopanic", Msg: fmt.Sprint(r), Stack: string(debug.Stack())}
		}
	}()
	return prog.Format(), prog, true, nil
}

// FormatAgain calls Format on an already formatted program.
func FormatAgain(prog *parser.Program) (out string, crash *rec.Outcome) {
	defer func() {
		if r := recover(); r != nil {
			crash = &rec.Outcome{Class: "gopanic", Msg: fmt.Sprint(r), Stack: string(debug.Stack())}
		}
	}()
	return prog.Format(), nil
}

// Sig is one significant (non-whitespace) token in canonical form.
type Sig struct {
	Type lexer.TokenType
	Lit  string
}

func (s Sig) String() string {
	if s.Lit != "" {
		return s.Type.String() + "(" + s.Lit + ")"
	}
	return s.Type.String()
}

// SigTokens lexes src and returns its tokens without WS and NL. Numbers are
// canonicalised by value, strings by decoded value, comments by trimmed text.
func SigTokens(src string) []Sig {
	var out []Sig
	l := lexer.New(src)
	for {
		t := l.Next()
		switch t.Type {
		case lexer.EOF:
			return out
		case lexer.WS, lexer.NL:
			continue
		case lexer.NUM_LIT:
			f, err := strconv.ParseFloat(t.Literal, 64)
			if err != nil {
				out = append(out, Sig{t.Type, "unparsable:" + t.Literal})
			} else {
				out = append(out, Sig{t.Type, strconv.FormatFloat(f, 'g', -1, 64)})
			}
		case lexer.COMMENT:
			out = append(out, Sig{t.Type, strings.TrimRightFunc(t.Literal, unicode.IsSpace)})
		case lexer.STRING_LIT, lexer.IDENT, lexer.ILLEGAL:
			out = append(out, Sig{t.Type, t.Literal})
		default:
			out = append(out, Sig{Type: t.Type})
		}
	}
}

// DiffSig describes the first difference of two significant-token sequences.
func DiffSig(a, b []Sig) string {
	for i := 0; i < len(a) || i < len(b); i++ {
		switch {
		case i >= len(a):
			return fmt.Sprintf("token %d: formatted text has extra %s", i, b[i])
		case i >= len(b):
			return fmt.Sprintf("token %d: %s of the source is missing from the formatted text", i, a[i])
		case a[i] != b[i]:
			return fmt.Sprintf("token %d: source has %s, formatted text has %s", i, a[i], b[i])
		}
	}
	return ""
}

// Relayout returns a variant of src that differs only in the amount of
// optional horizontal whitespace and in the length (>= 1 stays >= 1) of
// blank-line runs. changed counts the edits made.
func Relayout(t *rapid.T, src string) (string, int) {
	toks := srcmut.Lex(src)
	var sb strings.Builder
	changed := 0
	atLineStart := true
	for i := 0; i < len(toks); i++ {
		tk := toks[i]
		switch tk.Type {
		case lexer.WS:
			next := lexer.EOF
			if i+1 < len(toks) {
				next = toks[i+1].Type
			}
			switch {
			case atLineStart || next == lexer.NL || next == lexer.EOF:
				// indentation and trailing whitespace are free
				switch rapid.IntRange(0, 3).Draw(t, "edge-ws") {
				case 0:
					sb.WriteString(tk.Text)
				case 1:
					changed++
				case 2:
					sb.WriteString("\t ")
					changed++
				default:
					sb.WriteString(tk.Text + "  ")
					changed++
				}
			default:
				// separating whitespace: keep at least one character
				switch rapid.IntRange(0, 3).Draw(t, "inner-ws") {
				case 0:
					sb.WriteString(tk.Text)
				case 1:
					sb.WriteString(" ")
					if tk.Text != " " {
						changed++
					}
				case 2:
					sb.WriteString("   ")
					changed++
				default:
					sb.WriteString(" \t")
					changed++
				}
			}
			continue
		case lexer.NL:
			sb.WriteString(tk.Text)
			// a run of blank lines follows? (NL (WS? NL)+)
			j := i + 1
			blanks := 0
			for j < len(toks) {
				if toks[j].Type == lexer.NL {
					blanks++
					j++
					continue
				}
				if toks[j].Type == lexer.WS && j+1 < len(toks) && toks[j+1].Type == lexer.NL {
					blanks++
					j += 2
					continue
				}
				break
			}
			if blanks > 0 {
				n := rapid.IntRange(1, 4).Draw(t, "blank-run")
				if n != blanks {
					changed++
				}
				sb.WriteString(strings.Repeat("\n", n))
				i = j - 1
			} else if rapid.IntRange(0, 9).Draw(t, "add-trailing") == 0 && false {
				changed++
			}
			atLineStart = true
			continue
		default:
			if atLineStart && rapid.IntRange(0, 5).Draw(t, "add-indent") == 0 {
				sb.WriteString("  ")
				changed++
			}
			sb.WriteString(tk.Text)
			if i+1 < len(toks) && toks[i+1].Type == lexer.NL && tk.Type != lexer.COMMENT && rapid.IntRange(0, 7).Draw(t, "add-trailing") == 0 {
				sb.WriteString(" ")
				changed++
			}
		}
		atLineStart = false
	}
	return sb.String(), changed
}

// Shape checks the layout rules of canonical text and returns a description of
// the first violation ("" if none). kind names the rule.
func Shape(out string) (kind, detail string) {
	if out == "" {
		return "shape-final-newline", "formatted text is empty (an empty program formats to a single newline)"
	}
	if !strings.HasSuffix(out, "\n") {
		return "shape-final-newline", "formatted text does not end with a newline"
	}
	if out != "\n" && strings.HasSuffix(out, "\n\n") {
		return "shape-final-newline", "formatted text ends with a blank line, not with exactly one newline"
	}
	lines := strings.Split(strings.TrimSuffix(out, "\n"), "\n")
	block, lit, pending := 0, 0, 0
	prevEmpty := false
	for n, line := range lines {
		if line == "" {
			if prevEmpty {
				return "shape-blank-lines", fmt.Sprintf("line %d: more than one consecutive blank line", n+1)
			}
			prevEmpty = true
			continue
		}
		prevEmpty = false
		if strings.HasSuffix(line, " ") || strings.HasSuffix(line, "\t") {
			return "shape-trailing-space", fmt.Sprintf("line %d ends in whitespace: %q", n+1, line)
		}
		trimmed := strings.TrimLeft(line, " \t")
		indent := line[:len(line)-len(trimmed)]
		sig := SigTokens(trimmed)
		if len(sig) == 0 {
			continue
		}
		first := sig[0].Type
		expect := block + lit
		if lit == 0 && (first == lexer.END || first == lexer.ELSE) {
			expect--
		}
		// leading closing brackets dedent the line
		for _, s := range sig {
			if s.Type == lexer.RBRACKET || s.Type == lexer.RCURLY {
				expect--
				continue
			}
			break
		}
		if lit > 0 {
			// inside a multi-line literal the statement only fixes the unit: whole groups of
			// four spaces, at least the block level
			if strings.Trim(indent, " ") != "" || len(indent)%4 != 0 || len(indent) < 4*(block-1) {
				return "shape-indent", fmt.Sprintf("line %d (inside a multi-line literal) is indented by %q, expected a multiple of four spaces and at least %d levels: %q", n+1, indent, block-1, line)
			}
		} else if indent != strings.Repeat("    ", max(expect, 0)) {
			return "shape-indent", fmt.Sprintf("line %d is indented by %q, expected %d levels of four spaces: %q", n+1, indent, expect, line)
		}
		// update depths; a block opened by a header line takes effect once the
		// header's logical line (including a multi-line literal in it) is complete
		if lit == 0 {
			switch first {
			case lexer.FUNC, lexer.ON, lexer.IF, lexer.WHILE, lexer.FOR:
				pending++
			case lexer.END:
				block--
			}
		}
		for _, s := range sig {
			switch s.Type {
			case lexer.LBRACKET, lexer.LCURLY:
				lit++
			case lexer.RBRACKET, lexer.RCURLY:
				lit--
			}
		}
		if lit == 0 {
			block += pending
			pending = 0
		}
	}
	return "", ""
}
