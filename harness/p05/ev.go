package p05

import (
	"evylang.dev/evy/pkg/evaluator"
	"verif/harness/rec"
)

func newEvaluator(p *rec.Platform) *evaluator.Evaluator { return evaluator.NewEvaluator(p) }
