// Package p05 decides C05: invalid programs are rejected and nothing of them runs.
package p05

import (
	"bytes"
	"context"
	"fmt"
	"os"
	"os/exec"
	"path/filepath"
	"regexp"
	"strconv"
	"strings"
	"testing"
	"time"

	"pgregory.net/rapid"
	"verif/harness/eng"
	"verif/harness/gen"
	"verif/harness/h"
	"verif/harness/m"
	"verif/harness/rec"
)

// Case is a program that breaks exactly one static rule at a known place.
type Case struct {
	Src      string `json:"src"`
	Rule     string `json:"rule"`
	Position string `json:"position"`
	CLI      bool   `json:"cli,omitempty"`
}

var locRE = regexp.MustCompile(`^line (\d+) column (\d+): `)

func checkCase(c Case) *h.Failure {
	mk := func(kind, detail string) *h.Failure {
		return &h.Failure{Kind: kind, Detail: detail, Src: c.Src, Case: c}
	}
	prog, errs, crash := rec.SafeParse(c.Src)
	if crash != nil {
		return &h.Failure{Kind: crash.Class, Detail: crash.Msg, Src: c.Src, Case: c, Callsite: rec.TopFrame(crash.Stack)}
	}
	if prog != nil || len(errs) == 0 {
		return mk("accepted", fmt.Sprintf("a program that breaks the rule %q (%s) was accepted", c.Rule, c.Position))
	}
	nlines := strings.Count(c.Src, "\n") + 1
	lines := strings.Split(c.Src, "\n")
	for i, e := range errs {
		first := strings.SplitN(e.Error(), "\n", 2)[0]
		mm := locRE.FindStringSubmatch(first)
		if mm == nil {
			return mk("error-unlocated", fmt.Sprintf("error %d has no location: %q", i, e.Error()))
		}
		ln, _ := strconv.Atoi(mm[1])
		col, _ := strconv.Atoi(mm[2])
		if ln < 1 || ln > nlines || col < 1 || col > len([]rune(lines[ln-1]))+1 {
			return mk("error-position", fmt.Sprintf("error %d %q is located outside the text (%d lines)", i, e.Error(), nlines))
		}
	}
	// library entry point: Run must return the errors and touch nothing
	y := rec.NewYielder()
	p := &rec.Platform{Y: y, Inputs: []string{"x"}}
	y.P = p
	var runErr error
	var goPanic any
	func() {
		defer func() { goPanic = recover() }()
		ev := newEvaluator(p)
		y.Ev = ev
		runErr = ev.Run(c.Src)
	}()
	if goPanic != nil {
		return mk("gopanic", fmt.Sprint(goPanic))
	}
	if out := rec.Classify(runErr); out.Class != "parse" {
		return mk("run-did-not-reject", "Evaluator.Run returned "+out.String()+" for a program the parser rejects")
	}
	if len(p.Log) > 0 || y.Count > 0 {
		return mk("something-ran", fmt.Sprintf("the rejected program still caused %d platform call(s) and %d yield(s), first: %v", len(p.Log), y.Count, first(p.Log)))
	}
	if c.CLI {
		return cli(c)
	}
	return nil
}

func first(s []string) string {
	if len(s) == 0 {
		return ""
	}
	return s[0]
}

func cli(c Case) *h.Failure {
	bin := filepath.Join(os.Getenv("VERIF_BUILD"), "evy")
	if _, err := os.Stat(bin); err != nil {
		return nil
	}
	mk := func(kind, detail string) *h.Failure {
		return &h.Failure{Kind: kind, Detail: detail, Src: c.Src, Case: c}
	}
	dir, _ := os.MkdirTemp("", "verif-c05-")
	defer os.RemoveAll(dir)
	f := filepath.Join(dir, "p.evy")
	svg := filepath.Join(dir, "out.svg")
	os.WriteFile(f, []byte(c.Src), 0o644) //nolint:errcheck
	for _, args := range [][]string{{"run", f}, {"run", "--svg-out", svg, f}} {
		ctx, cancel := context.WithTimeout(context.Background(), 30*time.Second)
		cmd := exec.CommandContext(ctx, bin, args...)
		cmd.Stdin = strings.NewReader("x\n")
		var so, se bytes.Buffer
		cmd.Stdout, cmd.Stderr = &so, &se
		err := cmd.Run()
		timedOut := ctx.Err() == context.DeadlineExceeded
		cancel()
		if timedOut {
			return mk("cli-hang", "evy run did not return for a rejected program")
		}
		code := 0
		if ee, ok := err.(*exec.ExitError); ok {
			code = ee.ExitCode()
		}
		switch {
		case code == 0:
			return mk("cli-exit-zero", fmt.Sprintf("evy %s exits 0 for a rejected program", strings.Join(args[:len(args)-1], " ")))
		case so.Len() > 0:
			return mk("cli-stdout", fmt.Sprintf("evy run wrote to stdout for a rejected program: %q", so.String()))
		case se.Len() == 0:
			return mk("cli-no-stderr", "evy run reported nothing on stderr for a rejected program")
		}
		if _, err := os.Stat(svg); err == nil {
			return mk("cli-svg-created", "evy run --svg-out created the SVG file for a rejected program")
		}
	}
	return nil
}

var (
	openF25     bool
	excludedF25 int
)

type blockRef struct {
	stmts  *[]m.Stmt
	inLoop bool
	fn     *m.Func
	hd     *m.Handler
	where  string
}

func collect(p *m.Program) []blockRef {
	var out []blockRef
	var walk func(b *[]m.Stmt, inLoop bool, fn *m.Func, hd *m.Handler, where string)
	walk = func(b *[]m.Stmt, inLoop bool, fn *m.Func, hd *m.Handler, where string) {
		out = append(out, blockRef{b, inLoop, fn, hd, where})
		for _, s := range *b {
			switch s := s.(type) {
			case *m.If:
				for i := range s.Blocks {
					walk(&s.Blocks[i], inLoop, fn, hd, where+"/if")
				}
				if s.Else != nil {
					walk(&s.Else, inLoop, fn, hd, where+"/else")
				}
			case *m.While:
				walk(&s.Body, true, fn, hd, where+"/while")
			case *m.ForNum:
				walk(&s.Body, true, fn, hd, where+"/for")
			case *m.ForIn:
				walk(&s.Body, true, fn, hd, where+"/for")
			}
		}
	}
	for _, it := range p.Items {
		switch {
		case it.F != nil:
			walk(&it.F.Body, false, it.F, nil, "func")
		case it.H != nil:
			walk(&it.H.Body, false, nil, it.H, "handler")
		}
	}
	return out
}

// insertable positions in a block: anywhere before a trailing break/return
func insertAt(t *rapid.T, b blockRef, st m.Stmt) {
	n := len(*b.stmts)
	if n > 0 {
		switch (*b.stmts)[n-1].(type) {
		case *m.Break, *m.Return:
			n--
		}
	}
	at := rapid.IntRange(0, n).Draw(t, "at")
	*b.stmts = append((*b.stmts)[:at:at], append([]m.Stmt{st}, (*b.stmts)[at:]...)...)
}

type rule struct {
	name    string
	topOnly bool
	needs   func(b blockRef) bool
	lines   func(t *rapid.T, b blockRef) []string
}

var rules = []rule{
	{name: "undeclared-variable", lines: func(t *rapid.T, _ blockRef) []string {
		return [][]string{{"print zz_undeclared"}, {"zz_undeclared = 1"}, {"zz_x := zz_undeclared + 1", "print zz_x"}, {"print (len zz_undeclared)"}}[rapid.IntRange(0, 3).Draw(t, "v")]
	}},
	{name: "unused-variable", lines: func(t *rapid.T, _ blockRef) []string {
		v := rapid.IntRange(0, 2).Draw(t, "v")
		if v == 2 && openF25 {
			excludedF25++ // assigned-but-never-read is accepted (open finding F25): steer around it
			v = 0
		}
		return [][]string{{"zz_unused := 1"}, {"zz_unused:string"}, {"zz_unused := [1 2]", "zz_unused = []"}}[v]
	}},
	{name: "redeclaration", lines: func(t *rapid.T, _ blockRef) []string {
		return [][]string{{"zz_d := 1", "zz_d := 2", "print zz_d"}, {"zz_d:num", "zz_d:string", "print zz_d"}, {"zz_d := 1", "zz_d:num", "print zz_d"}}[rapid.IntRange(0, 2).Draw(t, "v")]
	}},
	{name: "name-clash-with-function", lines: func(t *rapid.T, _ blockRef) []string {
		return [][]string{{"print := 1", "zz_y := print"}, {"len:num", "zz_y := len"}, {"err := true", "print err"}}[rapid.IntRange(0, 2).Draw(t, "v")]
	}},
	{name: "type-mismatch", lines: func(t *rapid.T, _ blockRef) []string {
		if rapid.Bool().Draw(t, "generated-operands") {
			// an operator applied to operands of two different kinds (spec.md#operators-and-expressions:
			// both operands of a binary operator have the same type; [] and {} stand for arrays resp. maps only)
			zoo := []struct{ src, kind string }{{"1", "num"}, {"zz_n", "num"}, {"\"a\"", "string"}, {"true", "bool"}, {"[1]", "array"}, {"[\"s\"]", "array"},
				{"{a:1}", "map"}, {"[]", "array"}, {"{}", "map"}, {"zz_a", "array"}, {"zz_m", "map"}}
			for {
				a := zoo[rapid.IntRange(0, len(zoo)-1).Draw(t, "lhs")]
				b := zoo[rapid.IntRange(0, len(zoo)-1).Draw(t, "rhs")]
				op := rapid.SampledFrom([]string{"+", "-", "/", "%", "<", ">=", "==", "!=", "and", "or"}).Draw(t, "op")
				if a.kind == b.kind {
					continue
				}
				return []string{"zz_n := 2", "zz_a := [3]", "zz_m := {b:4}", "print zz_n zz_a zz_m", "print (" + a.src + " " + op + " " + b.src + ")"}
			}
		}
		return [][]string{
			{"zz_t:num", "zz_t = \"s\"", "print zz_t"},
			{"print 1+\"a\""},
			{"zz_a := [1 2]", "zz_b:[]any", "zz_b = zz_a", "print zz_b"},
			{"if 1", "    print 2", "end"},
			{"while \"x\"", "    print 2", "end"},
			{"print -\"s\""},
			{"print !1"},
			{"print [1 2][\"a\"]"},
			{"print {a:1}[0]"},
			{"zz_n := 1", "print zz_n.(num)"},
			{"print (len 1 == 2)"},
			{"for zz_i := range true", "    print zz_i", "end"},
			{"print \"a\"<1"},
			{"print [1]+[\"a\"]"},
			{"print (true and 1)"},
		}[rapid.IntRange(0, 14).Draw(t, "v")]
	}},
	{name: "wrong-arity", lines: func(t *rapid.T, _ blockRef) []string {
		return [][]string{{"print (upper)"}, {"print (upper \"a\" \"b\")"}, {"move 1"}, {"print (min 1)"}, {"cls 1"}}[rapid.IntRange(0, 4).Draw(t, "v")]
	}},
	{name: "unknown-function", lines: func(t *rapid.T, _ blockRef) []string {
		return [][]string{{"zz_nofunc 1 2"}, {"print (zz_nofunc 1)"}, {"zz_nofunc"}}[rapid.IntRange(0, 2).Draw(t, "v")]
	}},
	{name: "break-outside-loop", needs: func(b blockRef) bool { return !b.inLoop }, lines: func(*rapid.T, blockRef) []string { return []string{"if true", "    break", "end"} }},
	{name: "return-outside-function", needs: func(b blockRef) bool { return b.fn == nil && b.hd == nil }, lines: func(t *rapid.T, _ blockRef) []string {
		return [][]string{{"if true", "    return", "end"}, {"if true", "    return 1", "end"}}[rapid.IntRange(0, 1).Draw(t, "v")]
	}},
	{name: "value-returned-from-procedure-or-handler", needs: func(b blockRef) bool {
		return b.hd != nil || (b.fn != nil && (b.fn.Ret == nil || b.fn.Ret.K == m.None))
	}, lines: func(*rapid.T, blockRef) []string { return []string{"if true", "    return 1", "end"} }},
	{name: "unreachable-code", lines: func(t *rapid.T, b blockRef) []string {
		if rapid.Bool().Draw(t, "generated-chain") {
			// a statement after an if / else if / else chain all of whose branches end the enclosing loop iteration
			n := rapid.IntRange(2, 4).Draw(t, "branches")
			lines := []string{"zz_u := 0", "while zz_u < 3", "    zz_u = zz_u + 1"}
			for i := 0; i < n; i++ {
				switch {
				case i == 0:
					lines = append(lines, "    if zz_u == 0")
				case i == n-1:
					lines = append(lines, "    else")
				default:
					lines = append(lines, fmt.Sprintf("    else if zz_u == %d", i))
				}
				lines = append(lines, "        break")
			}
			return append(lines, "    end", "    print \"unreachable\"", "end")
		}
		// what stands between the terminating statement and the dead code makes no difference
		gap := [][]string{nil, {""}, {"    // a comment"}, {"", "    // a comment", ""}}[rapid.IntRange(0, 3).Draw(t, "gap")]
		if b.fn != nil && (b.fn.Ret == nil || b.fn.Ret.K == m.None) || b.hd != nil {
			return append(append([]string{"if true", "    return"}, gap...), "    print \"unreachable\"", "end")
		}
		return append(append([]string{"while true", "    break"}, gap...), "    print \"unreachable\"", "end")
	}},
	{name: "stray-text-after-statement", lines: func(t *rapid.T, _ blockRef) []string {
		return [][]string{{"print 1 )"}, {"print \"a\" ]"}, {"zz_s := 1 print zz_s"}, {"zz_s := 1 2", "print zz_s"}, {"cls }"}, {"zz_s := 1 +", "print zz_s"}}[rapid.IntRange(0, 5).Draw(t, "v")]
	}},
	{name: "stray-text-after-end-or-else", lines: func(t *rapid.T, _ blockRef) []string {
		return [][]string{
			{"if true", "    print 1", "end zz"},
			{"if true", "    print 1", "else zz", "    print 2", "end"},
			{"while false", "    print 1", "end 1"},
			{"for range 1", "    print 1", "end print 2"},
			{"if true", "    print 1", "end end"},
		}[rapid.IntRange(0, 4).Draw(t, "v")]
	}},
	{name: "missing-return", topOnly: true, lines: func(t *rapid.T, _ blockRef) []string {
		if rapid.Bool().Draw(t, "generated-chain") {
			// a typed function whose body ends in an if / else if / else chain in which at least one
			// branch does not end in a return (spec.md#break-and-return, #functions: a function with a
			// result type must end in a terminating statement on every path)
			n := rapid.IntRange(2, 5).Draw(t, "branches") // if, n-2 else-ifs, else
			falls := make([]bool, n)
			any := false
			for i := range falls {
				falls[i] = rapid.IntRange(0, 2).Draw(t, "falls") == 0
				any = any || falls[i]
			}
			if !any {
				falls[rapid.IntRange(0, n-1).Draw(t, "whichfalls")] = true
			}
			lines := []string{"func zz_m:num zz_p:num"}
			for i := 0; i < n; i++ {
				switch {
				case i == 0:
					lines = append(lines, "    if zz_p == 0")
				case i == n-1:
					lines = append(lines, "    else")
				default:
					lines = append(lines, fmt.Sprintf("    else if zz_p == %d", i))
				}
				if falls[i] {
					lines = append(lines, fmt.Sprintf("        print %d", i))
				} else {
					lines = append(lines, fmt.Sprintf("        return %d", i))
				}
			}
			return append(lines, "    end", "end", "print (zz_m 1)")
		}
		return [][]string{
			{"func zz_m:num", "    print 1", "end", "print (zz_m)"},
			{"func zz_m:num zz_p:num", "    if zz_p > 0", "        return 1", "    end", "end", "print (zz_m 1)"},
			{"func zz_m:string", "    while true", "        return \"a\"", "    end", "end", "print (zz_m)"},
		}[rapid.IntRange(0, 2).Draw(t, "v")]
	}},
	{name: "unknown-event-or-signature", topOnly: true, lines: func(t *rapid.T, _ blockRef) []string {
		if rapid.IntRange(0, 5).Draw(t, "unknownevent") == 0 {
			return []string{"on zz_event", "    print 1", "end"}
		}
		// docs/builtins.md#event-handlers: the parameters of a handler are those of the event, or none
		events := []struct {
			name string
			sig  []string
		}{{"key", []string{"string"}}, {"down", []string{"num", "num"}}, {"up", []string{"num", "num"}}, {"move", []string{"num", "num"}}, {"animate", []string{"num"}}, {"input", []string{"string", "string"}}}
		ev := events[rapid.IntRange(0, len(events)-1).Draw(t, "event")]
		sig := append([]string{}, ev.sig...)
		switch rapid.IntRange(0, 2).Draw(t, "deviation") {
		case 0: // one parameter of another type
			i := rapid.IntRange(0, len(sig)-1).Draw(t, "which")
			others := []string{"num", "string", "bool", "any", "[]num", "[]string", "[]any", "{}num", "{}string", "{}any"}
			for {
				o := rapid.SampledFrom(others).Draw(t, "othertype")
				if o != sig[i] {
					sig[i] = o
					break
				}
			}
		case 1: // one parameter too many
			sig = append(sig, rapid.SampledFrom([]string{"num", "string", "any"}).Draw(t, "extra"))
		default: // some but not all parameters
			if len(sig) < 2 {
				sig = append(sig, sig[0])
			} else {
				sig = sig[:len(sig)-1]
			}
		}
		hdr, use := "on "+ev.name, "    print"
		for i, ty := range sig {
			hdr += fmt.Sprintf(" zz_p%d:%s", i, ty)
			use += fmt.Sprintf(" zz_p%d", i)
		}
		return []string{hdr, use, "end"}
	}},
	{name: "stray-text-after-func-end", topOnly: true, lines: func(t *rapid.T, _ blockRef) []string {
		return [][]string{
			{"func zz_e", "    print 1", "end zz", "zz_e"},
			{"func zz_e", "    print 1", "end.", "zz_e"},
		}[rapid.IntRange(0, 1).Draw(t, "v")]
	}},
}

func TestProp(t *testing.T) {
	if h.ReplayPath() != "" {
		t.Skip("replay run")
	}
	ctx := h.Setup(t, "C05")
	cliBudget, ncli := 25, 0
	if ctx.Thorough() {
		cliBudget = 400
	}
	rapid.Check(t, func(t *rapid.T) {
		cfg := gen.Default
		cfg.ExprDepth = 1 + rapid.IntRange(0, 1).Draw(t, "exprdepth")
		cfg.BlockDepth = 1 + rapid.IntRange(0, 2).Draw(t, "blockdepth")
		cfg.MaxStmts = 4
		g := gen.New(t, cfg)
		p := g.Program()
		hasAnimate := false
		if rapid.Bool().Draw(t, "handler") {
			p.Items = append(p.Items, m.Item{H: g.Handler("key", 1)})
			for _, f := range g.Funcs {
				found := false
				for _, it := range p.Items {
					found = found || it.F == f
				}
				if !found {
					p.Items = append(p.Items, m.Item{F: f})
				}
			}
		}
		_ = hasAnimate
		// effects before everything else, so that "nothing ran" is never vacuous
		pre := []m.Item{{S: gen.Print(m.StrLit("effect before the broken rule"))}, {S: &m.CallStmt{C: &m.Call{Fn: "move", Args: []m.Expr{m.NumLit(1), m.NumLit(2)}, Ty: m.TNone}}},
			{S: &m.Decl{Name: "zz_in", Ty: m.TStr, Init: &m.Call{Fn: "read", Ty: m.TStr}}}, {S: gen.Print(&m.Var{Name: "zz_in", Ty: m.TStr})}, {S: &m.CallStmt{C: &m.Call{Fn: "sleep", Args: []m.Expr{m.NumLit(0.001)}, Ty: m.TNone}}}}
		p.Items = append(pre, p.Items...)
		r := rules[rapid.IntRange(0, len(rules)-1).Draw(t, "rule")]
		openF25 = ctx.Open("F25")
		position := "top-level"
		blocks := collect(p)
		var cands []blockRef
		for _, b := range blocks {
			if r.needs == nil || r.needs(b) {
				cands = append(cands, b)
			}
		}
		topOK := r.needs == nil || r.needs(blockRef{})
		useTop := r.topOnly || len(cands) == 0 || (topOK && rapid.IntRange(0, 2).Draw(t, "top") == 0)
		if useTop && !topOK {
			return // rule does not apply to this program
		}
		if useTop {
			lines := r.lines(t, blockRef{})
			at := len(pre) + rapid.IntRange(0, len(p.Items)-len(pre)).Draw(t, "at")
			p.Items = append(p.Items[:at:at], append([]m.Item{{S: &m.Raw{Lines: lines}}}, p.Items[at:]...)...)
		} else {
			b := cands[rapid.IntRange(0, len(cands)-1).Draw(t, "block")]
			position = b.where
			insertAt(t, b, &m.Raw{Lines: r.lines(t, b)})
		}
		src, _ := m.Render(p, eng.RapidLayout{T: t, Calm: true})
		c := Case{Src: src, Rule: r.name, Position: position}
		if ncli < cliBudget && rapid.IntRange(0, 30).Draw(t, "cli") == 0 {
			c.CLI = true
			ncli++
			ctx.Rec.Add("evy_run_cases", 1)
		}
		fl := checkCase(c)
		posClass := position
		if i := strings.Index(position, "/"); i > 0 {
			posClass = position[:i] + "/nested"
		}
		ctx.Rec.Case(true, src, "rule:"+r.name, "position:"+posClass)
		if ctx.Rec.WantSample() && len(src) < 700 {
			ctx.Rec.Sample(map[string]any{"rule": r.name, "position": position, "src": src})
		}
		ctx.Report(t, fl)
		for ; excludedF25 > 0; excludedF25-- {
			ctx.Rec.Exclude("F25")
		}
	})
}

func TestReplay(t *testing.T) {
	path := h.ReplayPath()
	if path == "" {
		t.Skip("no replay requested")
	}
	ctx := h.Setup(t, "C05")
	var c Case
	if _, err := h.LoadReplay(path, &c); err != nil {
		t.Fatalf("cannot load replay: %v", err)
	}
	ctx.FinishReplay(t, checkCase(c))
}
