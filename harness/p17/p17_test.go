// Package p17 decides C17: emitted bytecode is well formed and the VM cannot be crashed.
package p17

import (
	"fmt"
	"os"
	"strings"
	"testing"

	"evylang.dev/evy/pkg/bytecode"
	"pgregory.net/rapid"
	"verif/harness/bcx"
	"verif/harness/eng"
	"verif/harness/gen"
	"verif/harness/h"
	"verif/harness/m"
	"verif/harness/rec"
)

// Case is a source text whose compiled form is verified.
type Case struct {
	Src   string `json:"src"`
	Large string `json:"large,omitempty"` // kind of oversized program, generated from a recipe instead of Src
	N     int    `json:"n,omitempty"`
}

type instr struct {
	pos, size int
	op        bytecode.Opcode
	name      string
	operands  []int
}

// fixed stack effects (pops, pushes) by opcode name, from the opcode descriptions in code.go
var effects = map[string][2]int{
	"OpConstant": {0, 1}, "OpGetGlobal": {0, 1}, "OpSetGlobal": {1, 0}, "OpGetLocal": {0, 1}, "OpSetLocal": {1, 0},
	"OpAdd": {2, 1}, "OpSubtract": {2, 1}, "OpMultiply": {2, 1}, "OpDivide": {2, 1}, "OpModulo": {2, 1},
	"OpTrue": {0, 1}, "OpFalse": {0, 1}, "OpNot": {1, 1}, "OpMinus": {1, 1}, "OpEqual": {2, 1}, "OpNotEqual": {2, 1},
	"OpNumLessThan": {2, 1}, "OpNumLessThanEqual": {2, 1}, "OpNumGreaterThan": {2, 1}, "OpNumGreaterThanEqual": {2, 1},
	"OpStringLessThan": {2, 1}, "OpStringLessThanEqual": {2, 1}, "OpStringGreaterThan": {2, 1}, "OpStringGreaterThanEqual": {2, 1},
	"OpStringConcatenate": {2, 1}, "OpArrayConcatenate": {2, 1}, "OpArrayRepeat": {2, 1},
	"OpIndex": {2, 1}, "OpSetIndex": {3, 0}, "OpSlice": {3, 1}, "OpNone": {0, 1}, "OpJump": {0, 0},
}

func decode(bc *bytecode.Bytecode) ([]instr, map[int]int, string) {
	ins := bc.Instructions
	var out []instr
	starts := map[int]int{}
	for pos := 0; pos < len(ins); {
		def, err := bytecode.Lookup(bytecode.Opcode(ins[pos]))
		if err != nil {
			return nil, nil, fmt.Sprintf("offset %d: byte %d is not a known opcode", pos, ins[pos])
		}
		size := 1
		for _, w := range def.OperandWidths {
			size += w
		}
		if pos+size > len(ins) {
			return nil, nil, fmt.Sprintf("offset %d: %s is cut off by the end of the program", pos, def.Name)
		}
		operands, _ := bytecode.ReadOperands(def, ins[pos+1:])
		starts[pos] = len(out)
		out = append(out, instr{pos: pos, size: size, op: bytecode.Opcode(ins[pos]), name: def.Name, operands: operands})
		pos += size
	}
	return out, starts, ""
}

// verify checks operand ranges, jump targets and the stack discipline.
func verify(bc *bytecode.Bytecode) (string, string) {
	code, starts, msg := decode(bc)
	if msg != "" {
		return "decode", msg
	}
	end := len(bc.Instructions)
	usedConst := make([]bool, len(bc.Constants))
	for _, in := range code {
		switch in.name {
		case "OpConstant":
			if in.operands[0] >= len(bc.Constants) {
				return "operand-range", fmt.Sprintf("offset %d: OpConstant %d but there are %d constants", in.pos, in.operands[0], len(bc.Constants))
			}
			usedConst[in.operands[0]] = true
		case "OpGetGlobal", "OpSetGlobal":
			if in.operands[0] >= bc.GlobalCount {
				return "operand-range", fmt.Sprintf("offset %d: %s %d but GlobalCount is %d", in.pos, in.name, in.operands[0], bc.GlobalCount)
			}
		case "OpGetLocal", "OpSetLocal":
			if in.operands[0] >= bc.LocalCount {
				return "operand-range", fmt.Sprintf("offset %d: %s %d but LocalCount is %d", in.pos, in.name, in.operands[0], bc.LocalCount)
			}
		case "OpJump", "OpJumpOnFalse":
			tgt := in.operands[0]
			if _, ok := starts[tgt]; !ok && tgt != end {
				return "jump-target", fmt.Sprintf("offset %d: %s %d does not land on an instruction boundary inside the program (length %d)", in.pos, in.name, tgt, end)
			}
		}
	}
	for i, u := range usedConst {
		if !u {
			return "constant-unreferenced", fmt.Sprintf("constant %d of %d is never loaded: an operand was truncated or a load is missing", i, len(usedConst))
		}
	}
	// abstract interpretation of the stack height over the control-flow graph
	height := map[int]int{0: 0}
	work := []int{0}
	maxH := 0
	flow := func(from instr, to, hgt int) string {
		if hgt < 0 {
			return fmt.Sprintf("offset %d: %s underflows the operand stack", from.pos, from.name)
		}
		if hgt > maxH {
			maxH = hgt
		}
		if old, ok := height[to]; ok {
			if old != hgt {
				return fmt.Sprintf("offset %d is reached with stack height %d (from %s at %d) and with height %d on another path", to, hgt, from.name, from.pos, old)
			}
			return ""
		}
		height[to] = hgt
		work = append(work, to)
		return ""
	}
	for len(work) > 0 {
		pos := work[len(work)-1]
		work = work[:len(work)-1]
		if pos == end {
			continue
		}
		in := code[starts[pos]]
		hgt := height[pos]
		next := pos + in.size
		var bad string
		switch in.name {
		case "OpJump":
			bad = flow(in, in.operands[0], hgt)
		case "OpJumpOnFalse":
			if bad = flow(in, in.operands[0], hgt-1); bad == "" {
				bad = flow(in, next, hgt-1)
			}
		case "OpDrop":
			bad = flow(in, next, hgt-in.operands[0])
		case "OpArray":
			bad = flow(in, next, hgt-in.operands[0]+1)
		case "OpMap":
			bad = flow(in, next, hgt-2*in.operands[0]+1)
		case "OpStepRange", "OpIterRange":
			// pops its state (3 resp. 2 values), pushes it back, then the loop value if there
			// is a loop variable and the range goes on, then a bool: the instruction after it
			// must be the conditional jump that consumes the bool
			state := map[string]int{"OpStepRange": 3, "OpIterRange": 2}[in.name]
			if hgt < state {
				bad = fmt.Sprintf("offset %d: %s needs %d values of range state, stack height is %d", in.pos, in.name, state, hgt)
				break
			}
			if next >= end || code[starts[next]].name != "OpJumpOnFalse" {
				bad = fmt.Sprintf("offset %d: %s is not followed by OpJumpOnFalse", in.pos, in.name)
				break
			}
			j := code[starts[next]]
			if bad = flow(j, j.operands[0], hgt); bad == "" { // range finished: only the bool was pushed and popped
				bad = flow(j, next+j.size, hgt+in.operands[0]) // range goes on: loop value left for the loop variable
			}
		default:
			e, ok := effects[in.name]
			if !ok {
				return "unknown-effect", "no stack effect known for " + in.name
			}
			if hgt < e[0] {
				bad = fmt.Sprintf("offset %d: %s pops %d values, stack height is %d", in.pos, in.name, e[0], hgt)
			} else {
				bad = flow(in, next, hgt-e[0]+e[1])
			}
		}
		if bad != "" {
			return "stack-discipline", bad
		}
	}
	if hgt, ok := height[end]; ok && hgt != 0 {
		return "stack-discipline", fmt.Sprintf("the program ends with %d values left on the operand stack", hgt)
	}
	if maxH > bytecode.StackSize-bc.LocalCount {
		return "stack-limit", fmt.Sprintf("static stack height %d exceeds StackSize-LocalCount = %d", maxH, bytecode.StackSize-bc.LocalCount)
	}
	return "", ""
}

func largeProgram(kind string, n int) string {
	var sb strings.Builder
	switch kind {
	case "many-constants": // more constants than a 16-bit operand can address
		sb.WriteString("x := 0\n")
		for i := 0; i < n; i++ {
			fmt.Fprintf(&sb, "x = %d\n", i+1)
		}
		sb.WriteString("x = x\n")
	case "long-jump": // a loop body longer than a 16-bit jump offset
		sb.WriteString("x := 0\nfor i := range 2\n")
		for i := 0; i < n; i++ {
			sb.WriteString("    x = x + i\n")
		}
		sb.WriteString("end\nx = x\n")
	case "size-if", "size-if-else", "size-while", "size-for", "size-plain":
		// a program whose instruction stream is exactly n bytes long (if n can be reached), ending in the given statement
		return sizedProgram(strings.TrimPrefix(kind, "size-"), n)
	case "big-literal": // an array literal with more elements than a 16-bit operand
		sb.WriteString("x := [")
		for i := 0; i < n; i++ {
			sb.WriteString("1 ")
		}
		sb.WriteString("]\nx = x\n")
	}
	return sb.String()
}

var sizeTails = map[string]string{
	"plain":   "x = x\n",
	"if":      "if x < 0\n    x = 5\nend\n",
	"if-else": "if x < 0\n    x = 5\nelse\n    x = 6\nend\n",
	"while":   "while x < 0\n    x = x + 1\nend\n",
	"for":     "for i := range 2\n    x = x + i\nend\n",
}

func instrLen(src string) int {
	prog, errs, crash := rec.SafeParse(src)
	if crash != nil || errs != nil {
		return -1
	}
	c := bytecode.NewCompiler()
	if err := c.Compile(prog); err != nil {
		return -1
	}
	return len(c.Bytecode().Instructions)
}

// sizedProgram pads `x := 0` with two kinds of filler statements of different (measured)
// instruction sizes so that the program with the given tail compiles to exactly n bytes.
func sizedProgram(tail string, n int) string {
	head, f1, f2 := "x := 0\n", "x = 1\n", "x = -x\n"
	base := instrLen(head + sizeTails[tail])
	s1 := instrLen(head+f1+sizeTails[tail]) - base
	s2 := instrLen(head+f2+sizeTails[tail]) - base
	if base < 0 || s1 <= 0 || s2 <= 0 {
		return ""
	}
	for b := 0; b < s1; b++ {
		if rest := n - base - b*s2; rest >= 0 && rest%s1 == 0 {
			return head + strings.Repeat(f1, rest/s1) + strings.Repeat(f2, b) + sizeTails[tail]
		}
	}
	return ""
}

func checkCase(c Case) (*h.Failure, string) {
	src := c.Src
	if c.Large != "" {
		src = largeProgram(c.Large, c.N)
	}
	shown := src
	if len(shown) > 2000 {
		shown = shown[:1000] + "\n…\n" + shown[len(shown)-500:]
	}
	mk := func(kind, detail, callsite string) *h.Failure {
		if c.Large != "" {
			callsite = "large:" + c.Large + " " + callsite
		}
		return &h.Failure{Kind: kind, Detail: detail, Src: shown, Case: c, Callsite: callsite}
	}
	if src == "" {
		return nil, "size-not-reachable"
	}
	prog, errs, crash := rec.SafeParse(src)
	if crash != nil || errs != nil {
		return nil, "not-accepted"
	}
	steps := -1
	if strings.HasPrefix(c.Large, "size-") {
		steps = 12000 // about one evaluation step per filler statement
	}
	if c.Large == "" {
		_, _, res := bcx.EvalGlobals(prog)
		if res.FuelOut || res.TooMuch || res.Yields > 20000 {
			return nil, "too-expensive"
		}
		steps = res.Yields
	}
	vm := bcx.RunVM(prog, steps)
	if vm.Slow {
		return nil, "vm-slow"
	}
	if vm.Hang {
		return mk("vm-hang", fmt.Sprintf("the VM was still running after %d instructions (the evaluator needs %d evaluation steps; budget 200000 + 2000 per step)", vm.Steps, steps), ""), "vm-hang"
	}
	if vm.CompileErr != nil {
		return nil, "compile-error"
	}
	if vm.BC != nil {
		if kind, detail := verify(vm.BC); kind != "" {
			return mk(kind, detail, ""), "malformed"
		}
	}
	if vm.Panic != "" {
		return mk("vm-gopanic", "executing the compiled program crashed the host: "+vm.Panic, rec.TopFrame(vm.Stack)), "vm-panic"
	}
	if strings.HasPrefix(c.Large, "size-") && vm.RunErr == nil {
		if ev, out, _ := bcx.EvalGlobals(prog); out.Class == "ok" {
			if d := bcx.DiffGlobals(ev, vm.Globals); d != "" {
				return mk("size-boundary-result", fmt.Sprintf("a program of %d instruction bytes runs to another result on the VM: %s", len(vm.BC.Instructions), d), ""), "differs"
			}
		}
	}
	if vm.RunErr == nil && vm.SP != vm.BC.LocalCount {
		return mk("stack-not-empty", fmt.Sprintf("after a normal run the stack pointer is %d, expected LocalCount = %d", vm.SP, vm.BC.LocalCount), ""), "sp"
	}
	return nil, "verified"
}

func TestProp(t *testing.T) {
	if h.ReplayPath() != "" {
		t.Skip("replay run")
	}
	ctx := h.Setup(t, "C17")
	rapid.Check(t, func(t *rapid.T) {
		cfg := gen.Cfg{ExprDepth: 1 + rapid.IntRange(0, 2).Draw(t, "exprdepth"), BlockDepth: 1 + rapid.IntRange(0, 3).Draw(t, "blockdepth"), MaxStmts: 5,
			Maps: true, Loops: true, Shadow: true, NoCalls: true, NoTyped: true, NoLogic: true, NoDot: true, RiskyIndex: true}
		if ctx.Open("F37") {
			cfg.NoLoopVarShadow = true
			ctx.Rec.Exclude("F37")
		}
		g := gen.New(t, cfg)
		p := g.Program()
		src, _ := m.Render(p, eng.RapidLayout{T: t, Calm: true})
		if bcx.Leaked > 2 {
			t.Skip("too many abandoned VM runs")
		}
		fl, class := checkCase(Case{Src: src})
		nested := strings.Count(src, "for ")+strings.Count(src, "while ") >= 2
		brk := strings.Contains(src, "break")
		nontrivial := class == "verified" && (nested || brk)
		ctx.Rec.Case(nontrivial, src, "result:"+class)
		if nontrivial && ctx.Rec.WantSample() && len(src) < 500 {
			ctx.Rec.Sample(map[string]any{"src": src, "result": class})
		}
		ctx.Report(t, fl)
	})
}

// TestLarge compiles programs that need operands wider than 16 bits.
func TestLarge(t *testing.T) {
	if h.ReplayPath() != "" {
		t.Skip("replay run")
	}
	ctx := h.Setup(t, "C17")
	for _, k := range []struct {
		kind string
		n    int
	}{{"many-constants", 200}, {"many-constants", 70000}, {"long-jump", 300}, {"long-jump", 8000}, {"big-literal", 300}, {"big-literal", 70000}} {
		fl, class := checkCase(Case{Large: k.kind, N: k.n})
		ctx.Rec.Case(k.n > 60000 || k.kind == "long-jump" && k.n >= 8000, fmt.Sprintf("%s:%d", k.kind, k.n), "large:"+k.kind, "result:"+class)
		ctx.Rec.Sample(map[string]any{"large": k.kind, "n": k.n, "result": class})
		ctx.Report(t, fl)
	}
}

// TestSizes sweeps the length of the instruction stream across the 16-bit boundary, for every
// kind of final statement (the forward jumps of a final if / while / for are patched to the
// end of the program): each program is either refused as too large or compiles to well-formed
// code that computes what the evaluator computes.
func TestSizes(t *testing.T) {
	if h.ReplayPath() != "" {
		t.Skip("replay run")
	}
	ctx := h.Setup(t, "C17")
	shard, nshards := 0, 1
	fmt.Sscanf(os.Getenv("VERIF_SHARD"), "%d/%d", &shard, &nshards)
	i := 0
	for n := 65520; n <= 65550; n++ {
		for _, tail := range []string{"plain", "if", "if-else", "while", "for"} {
			i++
			if i%nshards != shard {
				continue
			}
			fl, class := checkCase(Case{Large: "size-" + tail, N: n})
			ctx.Rec.Case(class != "size-not-reachable", fmt.Sprintf("size-%s:%d", tail, n), "large:size-"+tail, "result:"+class)
			ctx.Report(t, fl)
		}
	}
}

// TestSymbolTable drives the symbol table like the compiler does and checks that
// symbols alive at the same time never share a slot and that enough slots are reserved.
func TestSymbolTable(t *testing.T) {
	if h.ReplayPath() != "" {
		t.Skip("replay run")
	}
	ctx := h.Setup(t, "C17")
	rapid.Check(t, func(t *rapid.T) {
		st := bytecode.NewSymbolTable()
		type scope struct{ syms map[string]bytecode.Symbol }
		model := []scope{{syms: map[string]bytecode.Symbol{}}}
		maxLive := 0
		var hist []string
		names := []string{"a", "b", "c", "d", "e"}
		failf := func(format string, args ...any) {
			msg := fmt.Sprintf(format, args...)
			ctx.Report(t, &h.Failure{Kind: "symbol-table", Detail: msg + "\nhistory: " + strings.Join(hist, " "), Src: strings.Join(hist, "\n"), Case: map[string]any{"history": hist}})
		}
		n := rapid.IntRange(1, 40).Draw(t, "nops")
		for i := 0; i < n; i++ {
			switch op := rapid.IntRange(0, 9).Draw(t, "op"); {
			case op <= 2:
				st = st.Push()
				model = append(model, scope{syms: map[string]bytecode.Symbol{}})
				hist = append(hist, "push")
			case op == 3 && len(model) > 1:
				st = st.Pop()
				model = model[:len(model)-1]
				hist = append(hist, "pop")
			case op <= 7:
				name := rapid.SampledFrom(names).Draw(t, "name")
				sym := st.Define(name)
				hist = append(hist, "define:"+name)
				top := model[len(model)-1]
				if old, ok := top.syms[name]; ok && old != sym {
					failf("redefining %q in the same scope returned a different symbol %v (was %v)", name, sym, old)
				}
				top.syms[name] = sym
				wantScope := bytecode.LocalScope
				if len(model) == 1 {
					wantScope = bytecode.GlobalScope
				}
				if sym.Scope != wantScope {
					failf("symbol %q defined at depth %d has scope %s", name, len(model)-1, sym.Scope)
				}
				// no two live symbols of the same storage class share an index
				seen := map[string]string{}
				live := 0
				for d, sc := range model {
					for nm, s := range sc.syms {
						key := fmt.Sprintf("%s/%d", s.Scope, s.Index)
						if other, ok := seen[key]; ok && other != fmt.Sprintf("%s@%d", nm, d) {
							failf("symbols %s and %s@%d are alive at the same time and share slot %s", other, nm, d, key)
						}
						seen[key] = fmt.Sprintf("%s@%d", nm, d)
						if s.Scope == bytecode.LocalScope {
							live++
						}
					}
				}
				if live > maxLive {
					maxLive = live
				}
			default:
				name := rapid.SampledFrom(names).Draw(t, "name")
				got, ok := st.Resolve(name)
				hist = append(hist, "resolve:"+name)
				var want *bytecode.Symbol
				for d := len(model) - 1; d >= 0 && want == nil; d-- {
					if s, found := model[d].syms[name]; found {
						want = &s
					}
				}
				if (want != nil) != ok || (want != nil && *want != got) {
					failf("resolve %q returned %v,%v; the innermost definition is %v", name, got, ok, want)
				}
			}
		}
		for len(model) > 1 {
			st = st.Pop()
			model = model[:len(model)-1]
			hist = append(hist, "pop")
		}
		if s := st.VerifState(); s.NestedMaxIndex < maxLive {
			failf("after all pops the table reserves %d local slots but %d local symbols were alive at the same time", s.NestedMaxIndex, maxLive)
		}
		ctx.Rec.Case(maxLive >= 2, strings.Join(hist, " "), "symbol-table-history")
		if ctx.Rec.WantSample() && maxLive >= 2 && len(hist) < 25 {
			ctx.Rec.Sample(map[string]any{"history": hist, "max_live_locals": maxLive})
		}
	})
}

func TestReplay(t *testing.T) {
	path := h.ReplayPath()
	if path == "" {
		t.Skip("no replay requested")
	}
	ctx := h.Setup(t, "C17")
	var c Case
	if _, err := h.LoadReplay(path, &c); err != nil {
		t.Fatalf("cannot load replay: %v", err)
	}
	fl, _ := checkCase(c)
	ctx.FinishReplay(t, fl)
}
