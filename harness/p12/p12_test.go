// Package p12 decides C12: maps are insertion-ordered dictionaries.
package p12

import (
	"strings"
	"testing"

	"pgregory.net/rapid"
	"verif/harness/eng"
	"verif/harness/gen"
	"verif/harness/h"
	"verif/harness/m"
)

var keys = []string{"a", "b", "c", "d", "x y", "for"}

type state struct {
	t       *rapid.T
	vt      *m.Type // value type
	mt      *m.Type
	vars    []string
	feats   map[string]bool
	deleted map[string]bool // keys deleted at least once (per history, any map)
	nval    int
	aliased bool
	mk      *m.Func // a function whose body evaluates one map literal on every call
}

func (s *state) val() m.Expr {
	s.nval++
	n := float64(s.nval)
	switch s.vt.K {
	case m.Num:
		return m.NumLit(n)
	case m.Arr:
		return &m.ArrLit{Ty: s.vt, Elems: []m.Expr{m.NumLit(n), m.NumLit(n + 0.5)}}
	case m.Any:
		if s.nval%2 == 0 {
			return m.AsAny(m.StrLit("s" + gen.Strs[s.nval%len(gen.Strs)]))
		}
		return m.AsAny(m.NumLit(n))
	}
	return &m.MapLit{Ty: s.vt, Keys: []string{"in"}, Vals: []m.Expr{m.NumLit(n)}}
}

func (s *state) mapVar() *m.Var {
	return &m.Var{Name: rapid.SampledFrom(s.vars).Draw(s.t, "map"), Ty: s.mt}
}

func (s *state) key() string { return rapid.SampledFrom(keys).Draw(s.t, "key") }

func (s *state) observe(label string) []m.Stmt {
	var out []m.Stmt
	args := []m.Expr{m.StrLit(label)}
	for _, v := range s.vars {
		mv := &m.Var{Name: v, Ty: s.mt}
		args = append(args, mv, &m.Call{Fn: "len", Args: []m.Expr{m.AsAny(mv)}, Ty: m.TNum})
	}
	out = append(out, gen.Print(args...))
	hasArgs := []m.Expr{m.StrLit("has")}
	mv := &m.Var{Name: s.vars[0], Ty: s.mt}
	for _, k := range keys {
		hasArgs = append(hasArgs, &m.Call{Fn: "has", Args: []m.Expr{mv, m.StrLit(k)}, Ty: m.TBool})
	}
	out = append(out, gen.Print(hasArgs...))
	return out
}

func (s *state) set(mv *m.Var, k string) m.Stmt {
	if s.deleted[k] {
		s.feats["reinsert-or-overwrite-after-delete"] = true
	}
	if m.IsIdent(k) && rapid.Bool().Draw(s.t, "dot") {
		return &m.Assign{Target: &m.Dot{X: mv, Key: k, Ty: s.vt}, Val: s.val()}
	}
	var ke m.Expr = m.StrLit(k)
	if rapid.IntRange(0, 3).Draw(s.t, "keyexpr") == 0 && len(k) > 1 {
		ke = &m.Binary{Op: "+", L: m.StrLit(k[:1]), R: m.StrLit(k[1:]), Ty: m.TStr}
	}
	return &m.Assign{Target: &m.Index{X: mv, I: ke, Ty: s.vt}, Val: s.val()}
}

func (s *state) del(mv *m.Var, k string) m.Stmt {
	s.deleted[k] = true
	return &m.CallStmt{C: &m.Call{Fn: "del", Args: []m.Expr{mv, m.StrLit(k)}, Ty: m.TNone}}
}

func (s *state) literal() m.Expr {
	n := rapid.IntRange(0, 4).Draw(s.t, "litlen")
	lit := &m.MapLit{Ty: s.mt}
	off := rapid.IntRange(0, len(keys)-1).Draw(s.t, "litoff")
	for i := 0; i < n; i++ {
		k := keys[(off+i*5)%len(keys)]
		if !m.IsIdent(k) {
			continue
		}
		dup := false
		for _, kk := range lit.Keys {
			dup = dup || kk == k
		}
		if dup {
			continue
		}
		lit.Keys = append(lit.Keys, k)
		lit.Vals = append(lit.Vals, s.val())
	}
	if s.vt.K == m.Any && len(lit.Keys) > 0 {
		// the literal's inferred type is {}any only with mixed values; force that
		lit.Vals[0] = m.AsAny(m.NumLit(7))
		if len(lit.Vals) > 1 {
			lit.Vals[1] = m.AsAny(m.StrLit("q"))
		} else {
			lit.Keys = append(lit.Keys, "zz")
			lit.Vals = append(lit.Vals, m.AsAny(m.StrLit("q")))
		}
	}
	return lit
}

// action appends one action (and nothing else) to out.
func (s *state) action(inLoopOver string, loopVar string, depth int) []m.Stmt {
	mv := s.mapVar()
	if inLoopOver != "" && rapid.IntRange(0, 2).Draw(s.t, "samemap") > 0 {
		mv = &m.Var{Name: inLoopOver, Ty: s.mt}
	}
	if inLoopOver != "" && mv.Name == inLoopOver {
		s.feats["mutation-inside-iteration"] = true
	}
	if s.aliased && mv.Name == "m2" {
		s.feats["through-alias"] = true
	}
	switch actionKind(rapid.IntRange(0, 32).Draw(s.t, "action")) {
	case 0, 1, 2:
		return []m.Stmt{s.set(mv, s.key())}
	case 3, 4:
		k := s.key()
		if loopVar != "" && rapid.Bool().Draw(s.t, "delcurrent") {
			s.deleted["*"] = true
			return []m.Stmt{&m.CallStmt{C: &m.Call{Fn: "del", Args: []m.Expr{mv, &m.Var{Name: loopVar, Ty: m.TStr}}, Ty: m.TNone}}}
		}
		return []m.Stmt{s.del(mv, k)}
	case 5: // reassign from a literal (the typed context converts constants)
		if inLoopOver != "" {
			return []m.Stmt{s.set(mv, s.key())}
		}
		return []m.Stmt{&m.Assign{Target: mv, Val: s.literal()}}
	case 6: // equality between two maps
		a, b := s.mapVar(), s.mapVar()
		op := rapid.SampledFrom([]string{"==", "!="}).Draw(s.t, "eqop")
		var rhs m.Expr = b
		if rapid.Bool().Draw(s.t, "eqlit") {
			rhs = s.literal()
			if s.vt.K == m.Any {
				rhs = b
			}
		}
		return []m.Stmt{gen.Print(m.StrLit("eq"), &m.Binary{Op: op, L: a, R: rhs, Ty: m.TBool})}
	case 7: // guarded lookup
		k := s.key()
		var get m.Expr = &m.Index{X: mv, I: m.StrLit(k), Ty: s.vt}
		if m.IsIdent(k) && rapid.Bool().Draw(s.t, "dot") {
			get = &m.Dot{X: mv, Key: k, Ty: s.vt}
		}
		return []m.Stmt{&m.If{
			Conds:  []m.Expr{&m.Call{Fn: "has", Args: []m.Expr{mv, m.StrLit(k)}, Ty: m.TBool}},
			Blocks: [][]m.Stmt{{gen.Print(m.StrLit("get"), get)}},
			Else:   []m.Stmt{gen.Print(m.StrLit("absent"), m.StrLit(k))},
		}}
	case 8: // iteration with a body acting on the maps
		if depth <= 0 {
			return []m.Stmt{s.set(mv, s.key())}
		}
		lv := "k" + string(rune('0'+depth))
		f := &m.ForIn{V: lv, X: mv}
		f.Body = append(f.Body, gen.Print(m.StrLit("visit"), &m.Var{Name: lv, Ty: m.TStr}))
		nb := rapid.IntRange(0, 3).Draw(s.t, "nbody")
		for i := 0; i < nb; i++ {
			f.Body = append(f.Body, s.action(mv.Name, lv, depth-1)...)
		}
		if rapid.IntRange(0, 5).Draw(s.t, "break") == 0 {
			f.Body = append(f.Body, &m.If{Conds: []m.Expr{&m.Binary{Op: "==", L: &m.Var{Name: lv, Ty: m.TStr}, R: m.StrLit(s.key()), Ty: m.TBool}}, Blocks: [][]m.Stmt{{&m.Break{}}}})
		}
		return []m.Stmt{f}
	case 10: // the same literal evaluated again: by a call of mk, or in a loop body
		s.feats["literal-evaluated-again"] = true
		if s.mk != nil && rapid.Bool().Draw(s.t, "viacall") {
			return []m.Stmt{&m.Assign{Target: mv, Val: &m.Call{Fn: "mk", Ty: s.mt}}}
		}
		if depth <= 0 || inLoopOver != "" {
			if s.mk != nil {
				return []m.Stmt{&m.Assign{Target: mv, Val: &m.Call{Fn: "mk", Ty: s.mt}}}
			}
			return []m.Stmt{s.set(mv, s.key())}
		}
		lit := s.literal()
		f := &m.ForNum{Stop: m.NumLit(float64(rapid.IntRange(2, 3).Draw(s.t, "rounds")))}
		f.Body = append(f.Body, &m.Assign{Target: mv, Val: lit})
		f.Body = append(f.Body, s.observe("fresh")...)
		nb := rapid.IntRange(1, 3).Draw(s.t, "nbody")
		for i := 0; i < nb; i++ {
			if rapid.Bool().Draw(s.t, "delorset") {
				f.Body = append(f.Body, s.del(mv, s.key()))
			} else {
				f.Body = append(f.Body, s.set(mv, s.key()))
			}
		}
		f.Body = append(f.Body, s.observe("changed")...)
		return []m.Stmt{f}
	default: // unguarded lookup: a missing key ends the run with the map-key panic
		k := s.key()
		s.feats["unguarded-lookup"] = true
		return []m.Stmt{gen.Print(m.StrLit("lookup"), &m.Index{X: mv, I: m.StrLit(k), Ty: s.vt})}
	}
}

func TestProp(t *testing.T) {
	if h.ReplayPath() != "" {
		t.Skip("replay run")
	}
	ctx := h.Setup(t, "C12")
	rapid.Check(t, func(t *rapid.T) {
		vt := []*m.Type{m.TNum, m.ArrOf(m.TNum), m.TAny, m.MapOf(m.TNum)}[rapid.IntRange(0, 3).Draw(t, "valtype")]
		s := &state{t: t, vt: vt, mt: m.MapOf(vt), feats: map[string]bool{}, deleted: map[string]bool{}}
		var stmts []m.Stmt
		// m1 typed declaration then literal, m2 alias of m1 or independent, m3 independent
		stmts = append(stmts, &m.Decl{Name: "m1", Ty: s.mt, Typed: true})
		s.vars = []string{"m1"}
		stmts = append(stmts, &m.Assign{Target: &m.Var{Name: "m1", Ty: s.mt}, Val: s.literal()})
		if rapid.Bool().Draw(t, "alias") {
			s.aliased = true
			stmts = append(stmts, &m.Decl{Name: "m2", Ty: s.mt, Init: &m.Var{Name: "m1", Ty: s.mt}})
		} else {
			stmts = append(stmts, &m.Decl{Name: "m2", Ty: s.mt, Typed: true})
		}
		stmts = append(stmts, &m.Decl{Name: "m3", Ty: s.mt, Typed: true})
		s.vars = []string{"m1", "m2", "m3"}
		if rapid.Bool().Draw(t, "mk") {
			s.mk = &m.Func{Name: "mk", Ret: s.mt, Body: []m.Stmt{&m.Return{Val: s.literal()}}}
		}
		n := rapid.IntRange(5, 40).Draw(t, "nactions")
		for i := 0; i < n; i++ {
			stmts = append(stmts, s.action("", "", 2)...)
			stmts = append(stmts, s.observe("s"+itoa(i))...)
		}
		prog := &m.Program{}
		if s.mk != nil {
			prog.Items = append(prog.Items, m.Item{F: s.mk})
		}
		for _, st := range stmts {
			prog.Items = append(prog.Items, m.Item{S: st})
		}
		src, _ := m.Render(prog, eng.RapidLayout{T: t, Calm: true})
		trace, out, _ := eng.Reference(prog, nil)
		if eng.Skip(out) {
			ctx.Rec.Case(false, src, "skipped:"+out.Class)
			return
		}
		cs := eng.ProgCase{Src: src, Expect: trace, ExpectClass: out.Class, ExpectMsg: out.Msg, Repeat: 2}
		fl, skipped, _ := eng.Check(cs)
		if skipped {
			ctx.Rec.Case(false, src, "skipped:fuel")
			return
		}
		var fs []string
		nontrivial := false
		for f := range s.feats {
			fs = append(fs, "feature:"+f)
			if f != "unguarded-lookup" {
				nontrivial = true
			}
		}
		fs = append(fs, "outcome:"+out.Class, "valtype:"+vt.String())
		ctx.Rec.Case(nontrivial, src, fs...)
		if nontrivial && ctx.Rec.WantSample() && len(src) < 1500 {
			ctx.Rec.Sample(map[string]any{"src": src, "expect_tail": tail(trace, 4), "class": out.Class, "features": strings.Join(fs, ",")})
		}
		ctx.Report(t, fl)
	})
}

func actionKind(r int) int {
	switch {
	case r <= 8:
		return 0
	case r <= 14:
		return 3
	case r <= 16:
		return 5
	case r <= 19:
		return 6
	case r <= 22:
		return 7
	case r <= 27:
		return 8
	case r == 28:
		return 9
	case r <= 32:
		return 10
	}
	return 0
}

func tail(s []string, n int) []string {
	if len(s) > n {
		return s[len(s)-n:]
	}
	return s
}

func itoa(i int) string {
	if i < 10 {
		return string(rune('0' + i))
	}
	return itoa(i/10) + string(rune('0'+i%10))
}

func TestReplay(t *testing.T) {
	path := h.ReplayPath()
	if path == "" {
		t.Skip("no replay requested")
	}
	ctx := h.Setup(t, "C12")
	var c eng.ProgCase
	if _, err := h.LoadReplay(path, &c); err != nil {
		t.Fatalf("cannot load replay: %v", err)
	}
	fl, _, _ := eng.Check(c)
	ctx.FinishReplay(t, fl)
}
