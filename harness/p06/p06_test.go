// Package p06 decides C06: formatting changes nothing but whitespace.
package p06

import (
	"bytes"
	"context"
	"fmt"
	"os"
	"os/exec"
	"path/filepath"
	"regexp"
	"strings"
	"testing"
	"time"

	"pgregory.net/rapid"
	"verif/harness/corpus"
	"verif/harness/eng"
	"verif/harness/fmtx"
	"verif/harness/gen"
	"verif/harness/h"
	"verif/harness/m"
	"verif/harness/rec"
	"verif/harness/srcmut"
)

// Case is an accepted source text (plus inputs for running it).
type Case struct {
	Src      string   `json:"src"`
	Inputs   []string `json:"inputs,omitempty"`
	Origin   string   `json:"origin"`
	MustPars bool     `json:"must_parse,omitempty"` // well-typed by construction
	CLI      bool     `json:"cli,omitempty"`        // also through the evy binary
}

func checkCase(c Case) (*h.Failure, string) {
	mk := func(kind, detail, callsite string) *h.Failure {
		return &h.Failure{Kind: kind, Detail: detail, Src: c.Src, Case: c, Callsite: callsite}
	}
	out, prog, accepted, crash := fmtx.Format(c.Src)
	if crash != nil {
		return mk(crash.Class, crash.Msg, rec.TopFrame(crash.Stack)), ""
	}
	if !accepted {
		if c.MustPars {
			_, errs, _ := rec.SafeParse(c.Src)
			return mk("rejected", "a program that is well-typed by construction was rejected: "+errs.Error(), ""), ""
		}
		return nil, "" // outside the domain
	}
	if d := fmtx.DiffSig(fmtx.SigTokens(c.Src), fmtx.SigTokens(out)); d != "" {
		return mk("tokens-changed", "formatting changed the sequence of non-whitespace tokens: "+d+"\nformatted:\n"+out, ""), out
	}
	out2, prog2, ok2, crash2 := fmtx.Format(out)
	if crash2 != nil {
		return mk("reparse-"+crash2.Class, crash2.Msg+"\nformatted:\n"+out, rec.TopFrame(crash2.Stack)), out
	}
	if !ok2 {
		_, errs, _ := rec.SafeParse(out)
		return mk("reparse-rejected", "the formatted text is not accepted: "+errs.Error()+"\nformatted:\n"+out, ""), out
	}
	_ = out2
	// blank lines are statements of the tree (EmptyStmt) but whitespace of the text: ignore them
	if a, b := dropBlank(prog.String()), dropBlank(prog2.String()); a != b {
		return mk("tree-changed", fmt.Sprintf("the formatted text parses to a different syntax tree:\nsource tree:\n%s\nformatted tree:\n%s", a, b), ""), out
	}
	if out != c.Src {
		ra := rec.RunProg(prog, rec.Opts{Inputs: c.Inputs, Fuel: 30000, MaxLog: 5000, RandSeed: 7}, nil)
		rb := rec.RunProg(prog2, rec.Opts{Inputs: c.Inputs, Fuel: 30000, MaxLog: 5000, RandSeed: 7}, nil)
		if ra.Out.Class == "gopanic" || rb.Out.Class == "gopanic" {
			return nil, out // C02's business
		}
		if !ra.FuelOut && !rb.FuelOut && !ra.TooMuch && !rb.TooMuch {
			if d := eng.DiffTrace(ra.Trace, rb.Trace); d != "" {
				return mk("behaviour-changed", "source and formatted text behave differently: "+d+"\nformatted:\n"+out, ""), out
			}
			if ra.Out.Class != rb.Out.Class {
				return mk("behaviour-changed", fmt.Sprintf("source ends with %s, formatted text with %s\nformatted:\n%s", ra.Out, rb.Out, out), ""), out
			}
		}
	}
	if c.CLI {
		if fl := cliFormat(c, out); fl != nil {
			return fl, out
		}
	}
	return nil, out
}

// cliFormat: the command line prints / writes exactly the formatter's text: `evy fmt` from
// standard input to standard output, and `evy fmt -w` into the file.
func cliFormat(c Case, formatted string) *h.Failure {
	bin := filepath.Join(os.Getenv("VERIF_BUILD"), "evy")
	if _, err := os.Stat(bin); err != nil {
		return nil
	}
	dir, _ := os.MkdirTemp("", "verif-c06-")
	defer os.RemoveAll(dir)
	ctx, cancel := context.WithTimeout(context.Background(), 60*time.Second)
	defer cancel()
	cmd := exec.CommandContext(ctx, bin, "fmt")
	cmd.Stdin = strings.NewReader(c.Src)
	var so, se bytes.Buffer
	cmd.Stdout, cmd.Stderr = &so, &se
	if err := cmd.Run(); err != nil {
		if ctx.Err() != nil {
			return nil
		}
		return &h.Failure{Kind: "cli-format-failed", Detail: "evy fmt (stdin) fails on an accepted program: " + se.String(), Src: c.Src, Case: c}
	}
	if so.String() != formatted {
		return &h.Failure{Kind: "cli-stdout-differs", Detail: fmt.Sprintf("evy fmt (stdin to stdout) prints text that differs from the formatter's output\nprinted:\n%s\nformatter:\n%s", so.String(), formatted), Src: c.Src, Case: c}
	}
	f := filepath.Join(dir, "p.evy")
	os.WriteFile(f, []byte(c.Src), 0o644) //nolint:errcheck
	cmd2 := exec.CommandContext(ctx, bin, "fmt", "-w", f)
	if outb, err := cmd2.CombinedOutput(); err != nil {
		if ctx.Err() != nil {
			return nil
		}
		return &h.Failure{Kind: "cli-format-failed", Detail: "evy fmt -w fails on an accepted program: " + string(outb), Src: c.Src, Case: c}
	}
	b, _ := os.ReadFile(f)
	if string(b) != formatted {
		return &h.Failure{Kind: "cli-file-differs", Detail: fmt.Sprintf("evy fmt -w writes text that differs from the formatter's output\nwritten:\n%s\nformatter:\n%s", b, formatted), Src: c.Src, Case: c}
	}
	return nil
}

func dropBlank(s string) string {
	var out []string
	for _, l := range strings.Split(s, "\n") {
		if strings.TrimSpace(l) != "" {
			out = append(out, l)
		}
	}
	return strings.Join(out, "\n")
}

var multilineLit = regexp.MustCompile(`[\[{][ \t]*(//[^\n]*)?\n`)

func TestProp(t *testing.T) {
	if h.ReplayPath() != "" {
		t.Skip("replay run")
	}
	ctx := h.Setup(t, "C06")
	all := corpus.All()
	cliBudget, ncli := 40, 0
	if ctx.Thorough() {
		cliBudget = 400
	}
	rapid.Check(t, func(t *rapid.T) {
		mode := rapid.SampledFrom([]string{"model", "model", "model", "corpus", "relayout", "relayout", "model-relayout", "mutant", "mutant", "mutant"}).Draw(t, "mode")
		c := Case{Origin: mode}
		switch mode {
		case "corpus":
			p := all[rapid.IntRange(0, len(all)-1).Draw(t, "prog")]
			c.Src, c.Origin = p.Src, "corpus:"+p.Name
		case "mutant": // whatever the parser still accepts after 1-2 token edits
			p := all[rapid.IntRange(0, len(all)-1).Draw(t, "prog")]
			q := all[rapid.IntRange(0, len(all)-1).Draw(t, "other")]
			c.Src, _ = srcmut.Mutate(t, srcmut.Window(t, p.Src, 60), srcmut.Window(t, q.Src, 20), rapid.IntRange(1, 2).Draw(t, "k"))
			c.Origin = "mutant:" + p.Name
		case "relayout":
			p := all[rapid.IntRange(0, len(all)-1).Draw(t, "prog")]
			c.Src, _ = fmtx.Relayout(t, p.Src)
			c.Origin = "relayout:" + p.Name
		default:
			cfg := gen.Default
			cfg.Tracers = rapid.Bool().Draw(t, "tracers")
			cfg.Shadow, cfg.EarlyExit, cfg.Tests = true, true, true
			cfg.ExprDepth = 1 + rapid.IntRange(0, 3).Draw(t, "exprdepth")
			cfg.BlockDepth = 1 + rapid.IntRange(0, 2).Draw(t, "blockdepth")
			cfg.MaxStmts = 4
			g := gen.New(t, cfg)
			p := g.Program()
			if rapid.Bool().Draw(t, "handler") {
				p.Items = append(p.Items, m.Item{H: g.Handler("key", 1)})
				for _, f := range g.Funcs {
					found := false
					for _, it := range p.Items {
						found = found || it.F == f
					}
					if !found {
						p.Items = append(p.Items, m.Item{F: f})
					}
				}
			}
			c.Src, _ = m.Render(p, eng.RapidLayout{T: t})
			c.MustPars = true
			if mode == "model-relayout" {
				c.Src, _ = fmtx.Relayout(t, c.Src)
			}
		}
		c.Inputs = []string{"abc", "1"}
		if ncli < cliBudget && rapid.IntRange(0, 30).Draw(t, "cli") == 0 {
			c.CLI = true
		}
		fl, out := checkCase(c)
		if c.CLI && out != "" {
			ncli++
			ctx.Rec.Add("evy_fmt_process_cases", 1)
		}
		comment := strings.Contains(c.Src, "//")
		multi := multilineLit.MatchString(c.Src)
		nontrivial := out != "" && out != c.Src && (comment || multi)
		classes := []string{"mode:" + mode}
		if comment {
			classes = append(classes, "has-comment")
		}
		if multi {
			classes = append(classes, "has-multiline-literal")
		}
		if out == c.Src {
			classes = append(classes, "already-formatted")
		}
		ctx.Rec.Case(nontrivial, c.Src, classes...)
		if nontrivial && ctx.Rec.WantSample() && len(c.Src) < 500 {
			ctx.Rec.Sample(map[string]any{"origin": c.Origin, "src": c.Src, "formatted": out})
		}
		ctx.Report(t, fl)
	})
}

func TestReplay(t *testing.T) {
	path := h.ReplayPath()
	if path == "" {
		t.Skip("no replay requested")
	}
	ctx := h.Setup(t, "C06")
	var c Case
	if _, err := h.LoadReplay(path, &c); err != nil {
		t.Fatalf("cannot load replay: %v", err)
	}
	fl, _ := checkCase(c)
	ctx.FinishReplay(t, fl)
}
