// Package p15 decides C15: events run their handlers in order, isolated, on shared globals.
package p15

import (
	"fmt"
	"sort"
	"testing"

	"pgregory.net/rapid"
	"verif/harness/eng"
	"verif/harness/gen"
	"verif/harness/h"
	"verif/harness/m"
	"verif/harness/rec"
)

// Ev is one delivered event.
type Ev struct {
	Name string    `json:"name"`
	Nums []float64 `json:"nums,omitempty"`
	Strs []string  `json:"strs,omitempty"`
}

func (e Ev) params() []any {
	var out []any
	for _, n := range e.Nums {
		out = append(out, n)
	}
	for _, s := range e.Strs {
		out = append(out, s)
	}
	return out
}

func (e Ev) values() []m.Value {
	var out []m.Value
	for _, n := range e.Nums {
		out = append(out, n)
	}
	for _, s := range e.Strs {
		out = append(out, s)
	}
	return out
}

// Case is a program, a history, and the expectation after each delivery.
type Case struct {
	Src     string     `json:"src"`
	Twin    string     `json:"twin_src"` // handlers rewritten as procedures, history appended as calls
	History []Ev       `json:"history"`
	Expect  [][]string `json:"expect"` // cumulative effects after Eval and after each event
	Classes []string   `json:"classes"`
}

func checkCase(c Case) *h.Failure {
	res := rec.Run(c.Src, rec.Opts{})
	mk := func(kind, detail string) *h.Failure {
		return &h.Failure{Kind: kind, Detail: detail, Src: c.Src, Case: c, Callsite: rec.TopFrame(res.Out.Stack)}
	}
	switch res.Out.Class {
	case "gopanic", "internal":
		return mk(res.Out.Class, res.Out.Msg)
	case "parse":
		return mk("rejected", res.Out.Msg)
	}
	if res.FuelOut || res.TooMuch {
		return nil
	}
	if d := eng.DiffTrace(c.Expect[0], res.Trace); d != "" {
		return mk("trace", "top-level code: "+d)
	}
	if res.Out.Class != c.Classes[0] {
		return mk("outcome", fmt.Sprintf("top-level code ended with %s, expected %s", res.Out, c.Classes[0]))
	}
	if res.Out.Class != "ok" {
		return nil
	}
	for i, ev := range c.History {
		out := res.Event(ev.Name, ev.params()...)
		if out.Class == "gopanic" || out.Class == "internal" {
			return mk(out.Class, fmt.Sprintf("event %d (%s %v): %s", i+1, ev.Name, ev.params(), out.Msg))
		}
		if res.FuelOut || res.TooMuch {
			return nil
		}
		if d := eng.DiffTrace(c.Expect[i+1], res.Trace); d != "" {
			return mk("trace", fmt.Sprintf("after event %d (%s %v): %s", i+1, ev.Name, ev.params(), d))
		}
		if out.Class != c.Classes[i+1] {
			return mk("outcome", fmt.Sprintf("event %d (%s %v) ended with %s, expected %s", i+1, ev.Name, ev.params(), out, c.Classes[i+1]))
		}
		if out.Class != "ok" {
			break
		}
	}
	// differential twin: same effects as calling equivalent procedures in that order
	if c.Twin != "" {
		tw := rec.Run(c.Twin, rec.Opts{})
		if tw.Out.Class == "parse" || tw.Out.Class == "gopanic" {
			return mk("twin-"+tw.Out.Class, "the procedure twin did not run: "+tw.Out.Msg+"\n"+c.Twin)
		}
		if tw.FuelOut || tw.TooMuch {
			return nil
		}
		if d := eng.DiffTrace(tw.Trace, res.Trace); d != "" {
			return mk("twin-trace", "cumulative effects differ from calling equivalent procedures in the same order: "+d)
		}
	}
	return nil
}

var payloadNums = []float64{0, 1, -1, 0.5, 99.75, -1234.5, 1e6, 50, 100, 33.333}
var payloadStrs = []string{"", "a", "Enter", " ", "ä", "日本", "🌍", "x\"y", "back\\slash", "ArrowLeft", "%v", "slider1"}

func TestProp(t *testing.T) {
	if h.ReplayPath() != "" {
		t.Skip("replay run")
	}
	ctx := h.Setup(t, "C15")
	rapid.Check(t, func(t *rapid.T) {
		cfg := gen.Default
		cfg.ExprDepth = 1 + rapid.IntRange(0, 1).Draw(t, "exprdepth")
		cfg.BlockDepth = 2
		cfg.MaxStmts = 3
		cfg.EarlyExit = true
		cfg.Shadow = true // handler parameters and locals may hide globals: nothing of one delivery may survive into the next
		cfg.Loops = rapid.Bool().Draw(t, "loops")
		g := gen.New(t, cfg)
		p := g.Program()
		// handlers: a subset of the six events
		names := []string{"key", "down", "up", "move", "animate", "input"}
		var present []string
		for _, n := range names {
			if rapid.IntRange(0, 2).Draw(t, "has-"+n) > 0 {
				present = append(present, n)
			}
		}
		if len(present) == 0 {
			present = []string{"key"}
		}
		hs := map[string]*m.Handler{}
		for _, n := range present {
			hd := g.Handler(n, 2)
			hs[n] = hd
			// handlers may appear anywhere after the globals they use: append at the end or before the last item
			p.Items = append(p.Items, m.Item{H: hd})
		}
		// functions (tracers) created while generating handlers must be part of the program
		have := map[string]bool{}
		for _, it := range p.Items {
			if it.F != nil {
				have[it.F.Name] = true
			}
		}
		for _, f := range g.Funcs {
			if !have[f.Name] {
				p.Items = append(p.Items, m.Item{F: f})
			}
		}
		// history
		n := rapid.IntRange(0, 30).Draw(t, "nevents")
		var hist []Ev
		for i := 0; i < n; i++ {
			name := present[rapid.IntRange(0, len(present)-1).Draw(t, "event")]
			ev := Ev{Name: name}
			for _, prm := range gen.EventParams[name] {
				if prm.Ty.K == m.Num {
					ev.Nums = append(ev.Nums, rapid.SampledFrom(payloadNums).Draw(t, "num"))
				} else {
					ev.Strs = append(ev.Strs, rapid.SampledFrom(payloadStrs).Draw(t, "str"))
				}
			}
			hist = append(hist, ev)
		}
		src, _ := m.Render(p, eng.RapidLayout{T: t, Calm: true})
		// reference run
		in := m.NewInterp(p, nil)
		out := in.Run()
		if eng.Skip(out) {
			ctx.Rec.Case(false, src, "skipped:"+out.Class)
			return
		}
		c := Case{Src: src}
		c.Expect = append(c.Expect, append([]string(nil), in.Log...))
		c.Classes = append(c.Classes, out.Class)
		delivered := 0
		if out.Class == "ok" {
			for _, ev := range hist {
				o := in.Event(ev.Name, ev.values())
				if eng.Skip(o) {
					ctx.Rec.Case(false, src, "skipped:"+o.Class)
					return
				}
				c.History = append(c.History, ev)
				c.Expect = append(c.Expect, append([]string(nil), in.Log...))
				c.Classes = append(c.Classes, o.Class)
				delivered++
				if o.Class != "ok" {
					break
				}
			}
		}
		// twin program: handlers as procedures + calls (only when everything ends ok, so that
		// a panic inside a procedure call does not cut the twin short differently)
		allOK := true
		for _, cl := range c.Classes {
			allOK = allOK && cl == "ok"
		}
		if allOK {
			tw := &m.Program{}
			for _, it := range p.Items {
				if it.H == nil {
					tw.Items = append(tw.Items, it)
					continue
				}
				f := &m.Func{Name: "h_" + it.H.Event, Ret: m.TNone, Body: it.H.Body}
				for i, prm := range it.H.Params {
					nm := prm.Name
					if nm == "_" {
						nm = fmt.Sprintf("unused%d", i)
						// "use" the parameter without any effect
						f.Body = append([]m.Stmt{&m.Assign{Target: &m.Var{Name: nm, Ty: prm.Ty}, Val: &m.Var{Name: nm, Ty: prm.Ty}}}, f.Body...)
					}
					f.Params = append(f.Params, m.Param{Name: nm, Ty: prm.Ty})
				}
				tw.Items = append(tw.Items, m.Item{F: f})
			}
			for _, ev := range c.History {
				call := &m.Call{Fn: "h_" + ev.Name, Ty: m.TNone}
				if len(hs[ev.Name].Params) > 0 {
					for _, v := range ev.values() {
						switch v := v.(type) {
						case float64:
							call.Args = append(call.Args, m.NumLit(v))
						case string:
							call.Args = append(call.Args, m.StrLit(v))
						}
					}
				}
				tw.Items = append(tw.Items, m.Item{S: &m.CallStmt{C: call}})
			}
			c.Twin, _ = m.Render(tw, m.Canonical{})
		}
		fl := checkCase(c)
		kinds := map[string]bool{}
		for _, ev := range c.History {
			kinds[ev.Name] = true
		}
		var classes []string
		for k := range kinds {
			classes = append(classes, "event:"+k)
		}
		sort.Strings(classes)
		sigs := map[string]bool{}
		for _, hd := range hs {
			switch {
			case len(hd.Params) == 0:
				sigs["sig:no-params"] = true
			default:
				u := false
				for _, prm := range hd.Params {
					u = u || prm.Name == "_"
				}
				if u {
					sigs["sig:underscore"] = true
				} else {
					sigs["sig:all-named"] = true
				}
			}
		}
		for s := range sigs {
			classes = append(classes, s)
		}
		if c.Twin != "" {
			classes = append(classes, "twin-compared")
		}
		nontrivial := len(kinds) >= 2 && delivered >= 2
		ctx.Rec.Case(nontrivial, src+fmt.Sprint(c.History), append(classes, "outcome:"+c.Classes[len(c.Classes)-1])...)
		if nontrivial && ctx.Rec.WantSample() && len(src) < 1200 {
			ctx.Rec.Sample(map[string]any{"src": src, "history": c.History, "final_effects": len(c.Expect[len(c.Expect)-1])})
		}
		ctx.Report(t, fl)
	})
}

func TestReplay(t *testing.T) {
	path := h.ReplayPath()
	if path == "" {
		t.Skip("no replay requested")
	}
	ctx := h.Setup(t, "C15")
	var c Case
	if _, err := h.LoadReplay(path, &c); err != nil {
		t.Fatalf("cannot load replay: %v", err)
	}
	ctx.FinishReplay(t, checkCase(c))
}
