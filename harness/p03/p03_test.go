// Package p03 decides C03: parsing is total and every diagnostic is located.
package p03

import (
	"fmt"
	"os"
	"regexp"
	"strconv"
	"strings"
	"testing"
	"time"
	"unicode"

	"evylang.dev/evy/pkg/lexer"
	"evylang.dev/evy/pkg/parser"
	"pgregory.net/rapid"
	"verif/harness/cfz"
	"verif/harness/corpus"
	"verif/harness/h"
	"verif/harness/rec"
	"verif/harness/srcmut"
)

// Case is one input text. EditLine > 0 means: a valid program in which one
// illegal character or one undeclared identifier was placed on that line.
type Case struct {
	Src      string   `json:"src"`
	Origin   string   `json:"origin"`
	Ops      []string `json:"ops"`
	EditLine int      `json:"edit_line,omitempty"`
	EditKind string   `json:"edit_kind,omitempty"`
}

type pos struct{ line, col int }

// positions recomputes (line, col) for every rune offset 0..len from the text alone.
func positions(runes []rune) []pos {
	ps := make([]pos, len(runes)+1)
	line, col := 1, 1
	for i, r := range runes {
		ps[i] = pos{line, col}
		if r == '\n' {
			line++
			col = 1
		} else {
			col++
		}
	}
	ps[len(runes)] = pos{line, col}
	return ps
}

var fixedText = map[lexer.TokenType]string{
	lexer.DECLARE: ":=", lexer.ASSIGN: "=", lexer.PLUS: "+", lexer.MINUS: "-", lexer.BANG: "!",
	lexer.ASTERISK: "*", lexer.SLASH: "/", lexer.PERCENT: "%", lexer.EQ: "==", lexer.NOT_EQ: "!=",
	lexer.LT: "<", lexer.GT: ">", lexer.LTEQ: "<=", lexer.GTEQ: ">=", lexer.LPAREN: "(", lexer.RPAREN: ")",
	lexer.LBRACKET: "[", lexer.RBRACKET: "]", lexer.LCURLY: "{", lexer.RCURLY: "}", lexer.COLON: ":",
	lexer.NL: "\n", lexer.DOT: ".", lexer.DOT3: "...", lexer.NUM: "num", lexer.STRING: "string",
	lexer.BOOL: "bool", lexer.ANY: "any", lexer.TRUE: "true", lexer.FALSE: "false", lexer.AND: "and",
	lexer.OR: "or", lexer.IF: "if", lexer.ELSE: "else", lexer.FUNC: "func", lexer.RETURN: "return",
	lexer.ON: "on", lexer.FOR: "for", lexer.RANGE: "range", lexer.WHILE: "while", lexer.BREAK: "break",
	lexer.END: "end", lexer.PKG: "pkg", lexer.IMPORT: "import",
}

// checkLexer: tokens tile the rune sequence, positions are right, types fit the text.
func checkLexer(src string) (string, string) {
	runes := []rune(src)
	ps := positions(runes)
	l := lexer.New(src)
	type tk struct {
		*lexer.Token
	}
	var toks []*lexer.Token
	for i := 0; ; i++ {
		t := l.Next()
		toks = append(toks, t)
		if t.Type == lexer.EOF {
			break
		}
		if i > len(runes)+1 {
			return "lexer-no-eof", fmt.Sprintf("more than %d tokens without EOF", i)
		}
	}
	expectOff := 0
	for i, t := range toks {
		if t.Offset != expectOff {
			return "lexer-tiling", fmt.Sprintf("token %d (%s) has Offset %d, previous token ended at %d (gap or overlap)", i, t, t.Offset, expectOff)
		}
		if t.Offset < 0 || t.Offset > len(runes) {
			return "lexer-offset", fmt.Sprintf("token %d (%s) Offset %d outside input of %d runes", i, t, t.Offset, len(runes))
		}
		want := ps[t.Offset]
		if t.Line != want.line || t.Col != want.col {
			return "lexer-position", fmt.Sprintf("token %d (%s) at offset %d reports line %d column %d, the text says line %d column %d", i, t, t.Offset, t.Line, t.Col, want.line, want.col)
		}
		rest := runes[t.Offset:]
		n := -1 // length in runes
		switch t.Type {
		case lexer.EOF:
			if len(rest) != 0 && rest[0] != 0 {
				return "lexer-eof", fmt.Sprintf("EOF token at offset %d but %d runes remain and the next is %q", t.Offset, len(rest), rest[0])
			}
			return "", ""
		case lexer.WS:
			n = 0
			for n < len(rest) && (rest[n] == ' ' || rest[n] == '\t' || (n > 0 && rest[n] == '\r')) {
				n++
			}
			if n == 0 {
				return "lexer-type", fmt.Sprintf("WS token at offset %d starts with %q", t.Offset, first(rest))
			}
		case lexer.IDENT:
			n = len([]rune(t.Literal))
			if n == 0 || string(rest[:min(n, len(rest))]) != t.Literal || !(unicode.IsLetter(rest[0]) || rest[0] == '_') {
				return "lexer-type", fmt.Sprintf("IDENT %q at offset %d does not spell the text %q", t.Literal, t.Offset, string(rest[:min(n, len(rest))]))
			}
		case lexer.NUM_LIT:
			n = len([]rune(t.Literal))
			if n == 0 || string(rest[:min(n, len(rest))]) != t.Literal || rest[0] < '0' || rest[0] > '9' {
				return "lexer-type", fmt.Sprintf("NUM_LIT %q at offset %d does not spell the text", t.Literal, t.Offset)
			}
		case lexer.COMMENT:
			n = len([]rune(t.Literal))
			if n < 2 || string(rest[:min(n, len(rest))]) != t.Literal || !strings.HasPrefix(t.Literal, "//") || strings.ContainsRune(t.Literal, '\n') {
				return "lexer-type", fmt.Sprintf("COMMENT %q at offset %d does not spell the text", t.Literal, t.Offset)
			}
			if n < len(rest) && rest[n] != '\n' && rest[n] != 0 {
				return "lexer-type", fmt.Sprintf("COMMENT at offset %d stops before the end of the line", t.Offset)
			}
		case lexer.STRING_LIT:
			if rest[0] != '"' {
				return "lexer-type", fmt.Sprintf("STRING_LIT at offset %d starts with %q", t.Offset, rest[0])
			}
			// find the closing quote the same way the grammar defines it: first unescaped quote on the line
			n = closingQuote(rest)
			if n < 0 {
				return "lexer-type", fmt.Sprintf("STRING_LIT at offset %d has no closing quote on its line", t.Offset)
			}
			un, err := strconv.Unquote(string(rest[:n]))
			if err != nil || un != t.Literal {
				return "lexer-type", fmt.Sprintf("STRING_LIT at offset %d: literal %q is not the decoded text %q", t.Offset, t.Literal, string(rest[:n]))
			}
		case lexer.ILLEGAL:
			if t.Literal == "invalid string" && rest[0] == '"' {
				n = closingQuote(rest)
				if n < 0 { // unterminated: runs to end of line
					n = 0
					for n < len(rest) && rest[n] != '\n' && rest[n] != 0 {
						n++
					}
				}
			} else {
				n = 1
				if t.Literal != string(rest[0]) {
					return "lexer-type", fmt.Sprintf("ILLEGAL token at offset %d has literal %q, text has %q", t.Offset, t.Literal, rest[0])
				}
			}
		default:
			txt, ok := fixedText[t.Type]
			if !ok {
				return "lexer-type", fmt.Sprintf("token %d has unknown type %v", i, t.Type)
			}
			n = len(txt)
			if string(rest[:min(n, len(rest))]) != txt {
				return "lexer-type", fmt.Sprintf("%s token at offset %d but the text there is %q", t.Type, t.Offset, string(rest[:min(n, len(rest))]))
			}
		}
		expectOff = t.Offset + n
	}
	return "lexer-no-eof", "token stream did not end in EOF"
}

func first(r []rune) string {
	if len(r) == 0 {
		return ""
	}
	return string(r[0])
}

func closingQuote(rest []rune) int {
	esc := false
	for i := 1; i < len(rest); i++ {
		c := rest[i]
		if c == '\n' || c == 0 {
			return -1
		}
		if c == '"' && !esc {
			return i + 1
		}
		esc = c == '\\' && !esc
	}
	return -1
}

var locRE = regexp.MustCompile(`^line (\d+) column (\d+): (.*)$`)

var quoted = []*regexp.Regexp{
	regexp.MustCompile(`^unknown variable name ("(?:[^"\\]|\\.)*")$`),
	regexp.MustCompile(`^redeclaration of ("(?:[^"\\]|\\.)*")$`),
	regexp.MustCompile(`^("(?:[^"\\]|\\.)*") declared but not used$`),
	regexp.MustCompile(`^unknown function ("(?:[^"\\]|\\.)*")$`),
	regexp.MustCompile(`^illegal character ("(?:[^"\\]|\\.)*")$`),
}

type parseResult struct {
	prog  *parser.Program
	errs  parser.Errors
	crash *rec.Outcome
}

func parseWithWatchdog(src string, limit time.Duration) (parseResult, bool) {
	ch := make(chan parseResult, 1)
	go func() {
		p, e, c := rec.SafeParse(src)
		ch <- parseResult{p, e, c}
	}()
	select {
	case r := <-ch:
		return r, true
	case <-time.After(limit):
		return parseResult{}, false
	}
}

func checkCase(c Case) *h.Failure {
	fail := func(kind, detail, callsite string) *h.Failure {
		return &h.Failure{Kind: kind, Detail: detail, Callsite: callsite, Src: c.Src, Case: c}
	}
	if kind, detail := checkLexer(c.Src); kind != "" {
		return fail(kind, detail, "")
	}
	r, ok := parseWithWatchdog(c.Src, 90*time.Second)
	if !ok {
		return fail("hang", "parser.Parse did not return within 90 s on an input of "+strconv.Itoa(len(c.Src))+" bytes", "")
	}
	if r.crash != nil {
		return fail(r.crash.Class, r.crash.Msg, rec.TopFrame(r.crash.Stack))
	}
	if (r.prog == nil) == (len(r.errs) == 0) {
		return fail("result-shape", fmt.Sprintf("Parse returned prog=%v with %d errors", r.prog != nil, len(r.errs)), "")
	}
	if r.prog != nil {
		if c.EditLine > 0 {
			return fail("edit-accepted", fmt.Sprintf("a program with %s on line %d was accepted", c.EditKind, c.EditLine), "")
		}
		return nil
	}
	runes := []rune(c.Src)
	ps := positions(runes)
	valid := map[pos]int{}
	for off := len(ps) - 1; off >= 0; off-- {
		valid[ps[off]] = off
	}
	tokLit := map[int]string{}
	for l, tk := lexer.New(c.Src), (*lexer.Token)(nil); tk == nil || tk.Type != lexer.EOF; {
		tk = l.Next()
		tokLit[tk.Offset] = tk.Literal
	}
	for i, e := range r.errs {
		txt := e.Error()
		first := strings.SplitN(txt, "\n", 2)[0]
		m := locRE.FindStringSubmatch(first)
		if m == nil {
			return fail("error-unlocated", fmt.Sprintf("error %d has no 'line L column C:' prefix: %q", i, txt), "")
		}
		ln, _ := strconv.Atoi(m[1])
		col, _ := strconv.Atoi(m[2])
		off, ok := valid[pos{ln, col}]
		if !ok {
			return fail("error-position", fmt.Sprintf("error %d %q: line %d column %d does not exist in the input (%d lines)", i, txt, ln, col, ps[len(ps)-1].line), "")
		}
		msg := m[3]
		if strings.Contains(txt, "\n") {
			continue
		}
		for _, re := range quoted {
			q := re.FindStringSubmatch(msg)
			if q == nil {
				continue
			}
			lex, err := strconv.Unquote(q[1])
			if err != nil {
				break
			}
			lr := []rune(lex)
			if tl, ok := tokLit[off]; ok && tl == lex {
				break // the position is the start of a token whose literal is the quoted name (e.g. a string literal)
			}
			if off+len(lr) > len(runes) || string(runes[off:off+len(lr)]) != lex {
				end := min(off+len(lr)+3, len(runes))
				return fail("error-wrong-char", fmt.Sprintf("error %d %q quotes %q but the text at line %d column %d is %q", i, txt, lex, ln, col, string(runes[off:end])), "")
			}
			break
		}
		if i == 0 && c.EditLine > 0 && ln != c.EditLine {
			return fail("error-wrong-line", fmt.Sprintf("%s placed on line %d of a valid program, but the first error is %q", c.EditKind, c.EditLine, txt), "")
		}
	}
	return nil
}

func pick(t *rapid.T, label string) corpus.Prog {
	all := corpus.All()
	return all[rapid.IntRange(0, len(all)-1).Draw(t, label)]
}

var identRE = regexp.MustCompile(`^[a-z][a-z0-9_]*$`)

// singleEdit places one illegal character or one undeclared identifier in a valid program.
func singleEdit(t *rapid.T, src string) (string, int, string, bool) {
	toks := srcmut.Lex(src)
	if len(toks) == 0 {
		return "", 0, "", false
	}
	lineOf := func(i int) int {
		n := 1
		for _, tk := range toks[:i] {
			n += strings.Count(tk.Text, "\n")
		}
		return n
	}
	if rapid.Bool().Draw(t, "illegal") {
		// insert an illegal character between two tokens, not inside a comment or string
		var spots []int
		for i, tk := range toks {
			if tk.Type != lexer.COMMENT && (i == 0 || toks[i-1].Type != lexer.COMMENT) {
				spots = append(spots, i)
			}
		}
		if len(spots) == 0 {
			return "", 0, "", false
		}
		i := spots[rapid.IntRange(0, len(spots)-1).Draw(t, "spot")]
		ch := rapid.SampledFrom([]string{"§", "$", "@", "#", "?", "~", "^", "&", "|", ";", ",", "'", "`", "\\"}).Draw(t, "ch")
		out := srcmut.Join(toks[:i]) + ch + srcmut.Join(toks[i:])
		return out, lineOf(i), "illegal character " + strconv.Quote(ch), true
	}
	// replace the use of a variable by an undeclared identifier
	declared := map[string]bool{}
	for i, tk := range toks {
		if tk.Type == lexer.IDENT && i+1 < len(toks) && (toks[i+1].Type == lexer.DECLARE || toks[i+1].Type == lexer.COLON) {
			declared[tk.Lit] = true
		}
	}
	var spots []int
	for i, tk := range toks {
		if tk.Type != lexer.IDENT || !declared[tk.Lit] {
			continue
		}
		if i+1 < len(toks) && (toks[i+1].Type == lexer.DECLARE || toks[i+1].Type == lexer.COLON || toks[i+1].Type == lexer.ASSIGN) {
			continue
		}
		if i+2 < len(toks) && toks[i+1].Type == lexer.WS && (toks[i+2].Type == lexer.DECLARE || toks[i+2].Type == lexer.ASSIGN || toks[i+2].Type == lexer.COLON) {
			continue
		}
		if i > 0 && (toks[i-1].Type == lexer.DOT || toks[i-1].Type == lexer.FUNC || toks[i-1].Type == lexer.ON) {
			continue
		}
		if i > 1 && toks[i-1].Type == lexer.WS && (toks[i-2].Type == lexer.FUNC || toks[i-2].Type == lexer.ON || toks[i-2].Type == lexer.FOR) {
			continue
		}
		spots = append(spots, i)
	}
	if len(spots) == 0 {
		return "", 0, "", false
	}
	i := spots[rapid.IntRange(0, len(spots)-1).Draw(t, "spot")]
	name := "zq" + strconv.Itoa(rapid.IntRange(0, 99).Draw(t, "n")) + "undeclared"
	out := srcmut.Join(toks[:i]) + name + srcmut.Join(toks[i+1:])
	return out, lineOf(i), "undeclared identifier " + name, true
}

func TestProp(t *testing.T) {
	if h.ReplayPath() != "" {
		t.Skip("replay run")
	}
	ctx := h.Setup(t, "C03")
	rapid.Check(t, func(t *rapid.T) {
		mode := rapid.SampledFrom([]string{"tokens", "tokens", "tokens", "prefix", "raw", "soup", "edit", "edit", "pristine", "confuse", "confuse"}).Draw(t, "mode")
		c := Case{Origin: mode}
		switch mode {
		case "pristine":
			p := pick(t, "prog")
			c.Src, c.Origin = p.Src, "pristine:"+p.Name
		case "confuse":
			c.Src, c.Ops = cfz.Program(t, rapid.Bool().Draw(t, "related"))
		case "tokens":
			p, q := pick(t, "prog"), pick(t, "other")
			k := rapid.IntRange(1, 4).Draw(t, "k")
			c.Src, c.Ops = srcmut.Mutate(t, srcmut.Window(t, p.Src, 80), srcmut.Window(t, q.Src, 40), k)
			c.Origin = "tokens:" + p.Name
		case "prefix":
			p := pick(t, "prog")
			r := []rune(srcmut.Window(t, p.Src, 80))
			n := rapid.IntRange(0, len(r)).Draw(t, "cut")
			c.Src, c.Ops, c.Origin = string(r[:n]), []string{"prefix"}, "prefix:"+p.Name
		case "raw":
			p := pick(t, "prog")
			b := []byte(srcmut.Window(t, p.Src, 60))
			k := rapid.IntRange(1, 3).Draw(t, "k")
			for i := 0; i < k; i++ {
				at := rapid.IntRange(0, len(b)).Draw(t, "at")
				var ins []byte
				if rapid.Bool().Draw(t, "frag") {
					ins = []byte(rapid.SampledFrom(srcmut.Raw).Draw(t, "raw"))
				} else {
					ins = []byte{rapid.Byte().Draw(t, "byte")}
				}
				b = append(b[:at:at], append(ins, b[at:]...)...)
			}
			c.Src, c.Ops, c.Origin = string(b), []string{"rawbytes"}, "raw:"+p.Name
		case "soup":
			n := rapid.IntRange(1, 30).Draw(t, "n")
			var sb strings.Builder
			for i := 0; i < n; i++ {
				sb.WriteString(rapid.SampledFrom(srcmut.Pool).Draw(t, "tok"))
				if rapid.IntRange(0, 2).Draw(t, "sp") == 0 {
					sb.WriteString(" ")
				}
			}
			c.Src, c.Ops = sb.String(), []string{"soup"}
		case "edit":
			p := pick(t, "prog")
			src := srcmut.Window(t, p.Src, 1<<30)
			out, line, kind, ok := singleEdit(t, src)
			if !ok {
				c.Src, c.Origin = p.Src, "pristine:"+p.Name
				break
			}
			c.Src, c.EditLine, c.EditKind, c.Origin = out, line, kind, "edit:"+p.Name
			c.Ops = []string{"edit"}
		}
		fl := checkCase(c)
		// classification for evidence
		nontrivial, class := false, "accepted"
		if fl == nil {
			_, errs, _ := rec.SafeParse(c.Src)
			if errs != nil {
				class = "rejected"
				hasHeader := strings.Contains(c.Src, "func") || strings.Contains(c.Src, "on ")
				nontrivial = len(c.Ops) > 0 && (len(errs) >= 2 || hasHeader || mode == "prefix" || mode == "edit")
				msg := locRE.FindStringSubmatch(strings.SplitN(errs[0].Error(), "\n", 2)[0])
				if msg != nil {
					w := strings.Fields(msg[3])
					if len(w) > 2 {
						w = w[:2]
					}
					class = "rejected:" + strings.Join(w, " ")
				}
			}
		}
		ctx.Rec.Case(nontrivial, c.Src, "mode:"+mode, "first-error:"+class)
		if nontrivial && ctx.Rec.WantSample() && len(c.Src) < 400 {
			ctx.Rec.Sample(map[string]any{"origin": c.Origin, "ops": c.Ops, "src": c.Src, "result": class})
		}
		ctx.Report(t, fl)
	})
}

// TestPrefixes enumerates every rune prefix of every small corpus program.
func TestPrefixes(t *testing.T) {
	if h.ReplayPath() != "" {
		t.Skip("replay run")
	}
	ctx := h.Setup(t, "C03")
	limit := 400
	if ctx.Thorough() {
		limit = 3000
	}
	shard, nshards := shardEnv()
	progs := corpus.Small(limit)
	for i, p := range progs {
		if i%nshards != shard {
			continue
		}
		r := []rune(p.Src)
		for n := 0; n <= len(r); n++ {
			c := Case{Src: string(r[:n]), Origin: "prefix-exhaustive:" + p.Name, Ops: []string{"prefix"}}
			fl := checkCase(c)
			ctx.Rec.Case(n < len(r), c.Src, "mode:prefix-exhaustive")
			ctx.Report(t, fl)
		}
		ctx.Rec.Add("programs_with_all_prefixes", 1)
	}
}

func shardEnv() (int, int) {
	s := os.Getenv("VERIF_SHARD")
	var i, n int
	if _, err := fmt.Sscanf(s, "%d/%d", &i, &n); err != nil || n <= 0 {
		return 0, 1
	}
	return i, n
}

func TestReplay(t *testing.T) {
	path := h.ReplayPath()
	if path == "" {
		t.Skip("no replay requested")
	}
	ctx := h.Setup(t, "C03")
	var c Case
	if _, err := h.LoadReplay(path, &c); err != nil {
		t.Fatalf("cannot load replay: %v", err)
	}
	ctx.FinishReplay(t, checkCase(c))
}
