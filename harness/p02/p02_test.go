// Package p02 decides C02: accepted programs never go wrong (type soundness).
package p02

import (
	"context"
	"fmt"
	"os"
	"os/exec"
	"path/filepath"
	"regexp"
	"strings"
	"testing"
	"time"

	"pgregory.net/rapid"
	"verif/harness/cfz"
	"verif/harness/corpus"
	"verif/harness/eng"
	"verif/harness/gen"
	"verif/harness/h"
	"verif/harness/m"
	"verif/harness/rec"
	"verif/harness/srcmut"
)

// Case is a source text with an optional prediction (model programs) and
// optional expectations on typeof lines (built-in probes).
type Case struct {
	Src    string        `json:"src"`
	Inputs []string      `json:"inputs,omitempty"`
	Model  *eng.ProgCase `json:"model,omitempty"`
	Typeof string        `json:"typeof,omitempty"` // expected last output line if the run completes
	ViaCLI bool          `json:"via_cli,omitempty"`
	SVG    bool          `json:"svg,omitempty"` // with ViaCLI: run with --svg-out
	Origin string        `json:"origin,omitempty"`
}

// excludeF53 is set while finding F53 is open; it counts the programs steered around.
var excludeF53 func()

func setupExclusions(ctx *h.Ctx) {
	excludeF53 = nil
	if ctx.Open("F53") {
		excludeF53 = func() { ctx.Rec.Exclude("F53") }
	}
}

var drawingCall = regexp.MustCompile(`(?m)^\s*(move|line|rect|circle|ellipse|text|clear|grid|gridn|poly|curve|color|colour|width|fill|stroke|font|dash|linecap)\b`)

var okClass = regexp.MustCompile(`^(ok|stopped|test|toomuch|exit:-?\d+|panic:[a-z]+)$`)

var concreteType = regexp.MustCompile(`^((\[\]|\{\})*)(num|string|bool|any)$`)

func checkCase(c Case) (*h.Failure, *rec.Result) {
	if c.ViaCLI {
		return checkCLI(c), nil
	}
	if c.Model != nil {
		fl, _, res := eng.Check(*c.Model)
		if fl != nil {
			fl.Case = c
		}
		return fl, res
	}
	if excludeF53 != nil {
		// open finding F53: a repetition with a large count exhausts the host's memory in one
		// allocation, which no in-process budget can catch: such programs are not run here
		if prog, errs, crash := rec.SafeParse(c.Src); crash == nil && errs == nil && rec.UnboundedRepetition(prog) {
			excludeF53()
			return nil, nil
		}
	}
	res := rec.Run(c.Src, rec.Opts{Inputs: c.Inputs, Fuel: 100000, MaxLog: 20000})
	mk := func(kind, detail string) *h.Failure {
		return &h.Failure{Kind: kind, Detail: detail, Src: c.Src, Case: c, Callsite: rec.TopFrame(res.Out.Stack)}
	}
	switch {
	case res.Out.Class == "parse":
		return nil, res // not in the domain
	case res.Out.Class == "gopanic":
		return mk("gopanic", "an accepted program crashed the host: "+res.Out.Msg), res
	case res.Out.Class == "internal":
		return mk("internal", "an accepted program ended with an internal error: "+res.Out.Msg), res
	case !okClass.MatchString(res.Out.Class):
		return mk("bad-outcome", "an accepted program ended with "+res.Out.String()), res
	}
	if c.Typeof != "" && res.Out.Class == "ok" {
		txt := strings.TrimSuffix(rec.PrintText(res.Trace), "\n")
		lines := strings.Split(txt, "\n")
		last := lines[len(lines)-1]
		if last != c.Typeof {
			return mk("typeof", fmt.Sprintf("typeof reports %q, the declared type is %q", last, c.Typeof)), res
		}
	}
	return nil, res
}

// checkCLI runs the program with the real evy binary (used for host crashes that cannot be survived in-process).
func checkCLI(c Case) *h.Failure {
	bin := filepath.Join(os.Getenv("VERIF_BUILD"), "evy")
	if _, err := os.Stat(bin); err != nil {
		return nil
	}
	dir, _ := os.MkdirTemp("", "verif-c02-")
	defer os.RemoveAll(dir)
	f := filepath.Join(dir, "p.evy")
	os.WriteFile(f, []byte(c.Src), 0o644) //nolint:errcheck
	limit := 120 * time.Second
	args := []string{"run", "--skip-sleep"}
	if c.SVG {
		// through the command line's own platform with the SVG back end (drawing built-ins do real work there)
		limit = 30 * time.Second
		args = append(args, "--svg-out", filepath.Join(dir, "out.svg"))
	}
	cctx, cancel := context.WithTimeout(context.Background(), limit)
	defer cancel()
	cmd := exec.CommandContext(cctx, bin, append(args, f)...)
	cmd.Stdin = strings.NewReader(strings.Join(c.Inputs, "\n") + "\n")
	cmd.Env = append(os.Environ(), "GOMAXPROCS=2")
	out, _ := cmd.CombinedOutput()
	s := string(out)
	if strings.Contains(s, "fatal error:") || strings.Contains(s, "goroutine 1 [") || strings.Contains(s, "panic: ") && strings.Contains(s, ".go:") {
		first := s
		if i := strings.Index(s, "fatal error:"); i >= 0 {
			first = s[i:]
		}
		if len(first) > 300 {
			first = first[:300]
		}
		return &h.Failure{Kind: "hostcrash", Detail: "evy run crashed the Go runtime: " + first, Src: c.Src, Case: c, Callsite: rec.TopFrame(s)}
	}
	return nil
}

func current(src string) {
	if out := os.Getenv("VERIF_OUT"); out != "" {
		os.WriteFile(out+".current", []byte(src), 0o644) //nolint:errcheck
	}
}

// TestModel: generated well-typed programs with risky indices, type assertions, every
// statement form; the reference predicts output, typeof of every variable and the panic class.
func TestModel(t *testing.T) {
	if h.ReplayPath() != "" {
		t.Skip("replay run")
	}
	ctx := h.Setup(t, "C02")
	setupExclusions(ctx)
	rapid.Check(t, func(t *rapid.T) {
		cfg := gen.Default
		cfg.Asserts, cfg.RiskyIndex, cfg.Shadow, cfg.EarlyExit, cfg.Tests = true, true, true, true, true
		cfg.ExprDepth = 1 + rapid.IntRange(0, 2).Draw(t, "exprdepth")
		cfg.BlockDepth = 1 + rapid.IntRange(0, 2).Draw(t, "blockdepth")
		cfg.MaxStmts = 5
		g := gen.New(t, cfg)
		p := g.Program()
		// observation: typeof of every global at the end
		var args []m.Expr
		for _, it := range p.Items {
			if d, ok := it.S.(*m.Decl); ok {
				args = append(args, &m.Call{Fn: "typeof", Args: []m.Expr{m.AsAny(&m.Var{Name: d.Name, Ty: d.Ty})}, Ty: m.TStr})
			}
		}
		if len(args) > 0 {
			p.Items = append(p.Items, m.Item{S: gen.Print(args...)})
		}
		src, _ := m.Render(p, eng.RapidLayout{T: t, Calm: true})
		trace, out, _ := eng.Reference(p, nil)
		if eng.Skip(out) {
			ctx.Rec.Case(false, src, "model:skipped:"+out.Class)
			return
		}
		c := Case{Src: src, Origin: "model", Model: &eng.ProgCase{Src: src, Expect: trace, ExpectClass: out.Class, ExpectMsg: out.Msg}}
		fl, _ := checkCase(c)
		nontrivial := g.AnyWraps > 0 || g.EmptyTyped > 0 || out.Class != "ok"
		ctx.Rec.Case(nontrivial, src, "source:model", "model-outcome:"+out.Class)
		if nontrivial && ctx.Rec.WantSample() && len(src) < 700 {
			ctx.Rec.Sample(map[string]any{"origin": "model", "src": src, "class": out.Class})
		}
		ctx.Report(t, fl)
	})
}

// TestMutants: whatever the checker lets through. Token mutants of repository
// programs that the parser accepts are run with fuel.
func TestMutants(t *testing.T) {
	if h.ReplayPath() != "" {
		t.Skip("replay run")
	}
	ctx := h.Setup(t, "C02")
	setupExclusions(ctx)
	all := corpus.All()
	svgBudget, nsvg := 60, 0
	if ctx.Thorough() {
		svgBudget = 1500
	}
	rapid.Check(t, func(t *rapid.T) {
		p := all[rapid.IntRange(0, len(all)-1).Draw(t, "prog")]
		q := all[rapid.IntRange(0, len(all)-1).Draw(t, "other")]
		k := rapid.IntRange(1, 3).Draw(t, "k")
		src, ops := srcmut.Mutate(t, srcmut.Window(t, p.Src, 60), srcmut.Window(t, q.Src, 30), k)
		nin := rapid.IntRange(0, 3).Draw(t, "ninputs")
		var inputs []string
		for i := 0; i < nin; i++ {
			inputs = append(inputs, rapid.SampledFrom([]string{"", "1", "abc", "-2.5", "true", "ä"}).Draw(t, "input"))
		}
		current(src)
		c := Case{Src: src, Inputs: inputs, Origin: "mutant:" + p.Name}
		fl, res := checkCase(c)
		accepted := res != nil && res.Out.Class != "parse"
		cls := "rejected"
		if accepted {
			cls = "accepted:" + strings.SplitN(res.Out.Class, ":", 2)[0]
			ctx.Rec.Add("mutants_accepted", 1)
		}
		ctx.Rec.Add("mutants_total", 1)
		if fl == nil && accepted && res.Out.Class == "ok" && drawingCall.MatchString(src) && nsvg < svgBudget && rapid.IntRange(0, 3).Draw(t, "svgcli") == 0 {
			nsvg++
			ctx.Rec.Add("mutants_run_with_svg_platform", 1)
			fl = checkCLI(Case{Src: src, Inputs: inputs, ViaCLI: true, SVG: true, Origin: c.Origin})
		}
		ctx.Rec.Case(accepted && src != p.Src, src, "source:mutant", "mutant:"+cls)
		if accepted && ctx.Rec.WantSample() && len(src) < 500 && src != p.Src {
			ctx.Rec.Sample(map[string]any{"origin": c.Origin, "ops": ops, "src": src, "outcome": res.Out.Class})
		}
		ctx.Report(t, fl)
	})
}

// TestBorderline: programs at the border of the type checker. A generated well-typed
// program is followed by typed contexts filled with expressions of the same, a related
// (any-based) or an unrelated type, and by stores through selector chains that may end
// inside a string. Most are rejected; whatever is accepted must run to a documented outcome.
func TestBorderline(t *testing.T) {
	if h.ReplayPath() != "" {
		t.Skip("replay run")
	}
	ctx := h.Setup(t, "C02")
	setupExclusions(ctx)
	rapid.Check(t, func(t *rapid.T) {
		src, ops := cfz.Program(t, true)
		current(src)
		c := Case{Src: src, Origin: "borderline"}
		fl, res := checkCase(c)
		accepted := res != nil && res.Out.Class != "parse"
		cls := "rejected"
		if accepted {
			cls = "accepted:" + strings.SplitN(res.Out.Class, ":", 2)[0]
			// a value stored in an any carries a concrete type: every type typeof reports there is spelled in full
			for _, l := range strings.Split(rec.PrintText(res.Trace), "\n") {
				if !strings.HasPrefix(l, "typeof-any: ") || fl != nil {
					continue
				}
				for _, ty := range strings.Fields(strings.TrimPrefix(l, "typeof-any: ")) {
					if !concreteType.MatchString(ty) || ty == "any" {
						fl = &h.Failure{Kind: "typeof-any", Detail: fmt.Sprintf("typeof of a value held in an any reports %q, which is not a complete concrete type", ty), Src: src, Case: c}
					}
				}
			}
		}
		labels := []string{"source:borderline", "borderline:" + cls}
		for _, o := range ops {
			labels = append(labels, o+":"+strings.SplitN(cls, ":", 2)[0])
		}
		ctx.Rec.Case(accepted, src, labels...)
		if accepted && ctx.Rec.WantSample() && len(src) < 500 {
			ctx.Rec.Sample(map[string]any{"origin": c.Origin, "ops": ops, "src": src, "outcome": res.Out.Class})
		}
		ctx.Report(t, fl)
	})
}

type argClass struct {
	name string
	e    func() m.Expr
}

func numExpr(op string, a, b float64) m.Expr {
	return &m.Group{X: &m.Binary{Op: op, L: m.NumLit(a), R: m.NumLit(b), Ty: m.TNum}}
}

var numClasses = []argClass{
	{"zero", func() m.Expr { return m.NumLit(0) }},
	{"negzero", func() m.Expr { return &m.Group{X: &m.Unary{Op: "-", X: m.NumLit(0)}} }},
	{"one", func() m.Expr { return m.NumLit(1) }},
	{"neg", func() m.Expr { return m.NumLit(-3) }},
	{"half", func() m.Expr { return m.NumLit(0.5) }},
	{"negfrac", func() m.Expr { return m.NumLit(-2.5) }},
	{"small", func() m.Expr { return m.NumLit(7) }},
	{"2^31-1", func() m.Expr { return m.NumLit(2147483647) }},
	{"2^31", func() m.Expr { return m.NumLit(2147483648) }},
	{"2^53", func() m.Expr { return m.NumLit(9007199254740992) }},
	{"1e300", func() m.Expr { return numExpr("*", 1e150, 1e150) }},
	{"tiny", func() m.Expr { return m.NumLit(0.000000001) }},
	{"nan", func() m.Expr { return numExpr("/", 0, 0) }},
	{"inf", func() m.Expr { return numExpr("/", 1, 0) }},
	{"neginf", func() m.Expr { return numExpr("/", -1, 0) }},
}

var strClasses = []argClass{
	{"empty", func() m.Expr { return m.StrLit("") }},
	{"ascii", func() m.Expr { return m.StrLit("abc") }},
	{"nonascii", func() m.Expr { return m.StrLit("äb日本🌍") }},
	{"space", func() m.Expr { return m.StrLit("x y ") }},
	{"verbs", func() m.Expr { return m.StrLit("%v %d %s %q %5.2f %% %") }},
	{"newline", func() m.Expr { return m.StrLit("a\nb\t") }},
	{"digit", func() m.Expr { return m.StrLit("1") }},
	{"bool", func() m.Expr { return m.StrLit("true") }},
	{"long", func() m.Expr { return m.StrLit(strings.Repeat("ab", 150)) }},
	{"quote", func() m.Expr { return m.StrLit("\"\\") }},
	{"color", func() m.Expr { return m.StrLit("red") }},
	{"markup", func() m.Expr { return m.StrLit("<&\">]]>") }},
}

type sig struct {
	name   string
	params string // n=num s=string a=any A=[]any/[]x array M=map b=bool, upper-case V suffix = variadic of previous
	ret    string
}

var sigs = []sig{
	{"print", "a*", ""}, {"printf", "sa*", ""}, {"sprint", "a*", "string"}, {"sprintf", "sa*", "string"},
	{"join", "As", "string"}, {"split", "ss", "[]string"}, {"upper", "s", "string"}, {"lower", "s", "string"},
	{"index", "ss", "num"}, {"startswith", "ss", "bool"}, {"endswith", "ss", "bool"}, {"trim", "ss", "string"},
	{"replace", "sss", "string"}, {"repr", "a*", "string"}, {"str2num", "s", "num"}, {"str2bool", "s", "bool"},
	{"typeof", "a", "string"}, {"len", "a", "num"}, {"has", "Ms", "bool"}, {"del", "Ms", ""},
	{"sleep", "n", ""}, {"exit", "n", ""}, {"panic", "s", ""}, {"test", "a*", ""},
	{"rand", "n", "num"}, {"rand1", "", "num"}, {"min", "nn", "num"}, {"max", "nn", "num"}, {"abs", "n", "num"},
	{"floor", "n", "num"}, {"ceil", "n", "num"}, {"round", "n", "num"}, {"pow", "nn", "num"}, {"log", "n", "num"},
	{"sqrt", "n", "num"}, {"sin", "n", "num"}, {"cos", "n", "num"}, {"atan2", "nn", "num"},
	{"move", "nn", ""}, {"line", "nn", ""}, {"rect", "nn", ""}, {"circle", "n", ""}, {"width", "n", ""},
	{"color", "s", ""}, {"colour", "s", ""}, {"hsl", "n*", "string"}, {"clear", "s*", ""}, {"grid", "", ""},
	{"gridn", "ns", ""}, {"poly", "P*", ""}, {"ellipse", "n*", ""}, {"stroke", "s", ""}, {"fill", "s", ""},
	{"dash", "n*", ""}, {"linecap", "s", ""}, {"text", "s", ""}, {"font", "F", ""}, {"read", "", "string"}, {"cls", "", ""},
}

func pickClass(t *rapid.T, cs []argClass) (m.Expr, string) {
	c := cs[rapid.IntRange(0, len(cs)-1).Draw(t, "class")]
	return c.e(), c.name
}

func anyArg(t *rapid.T) (m.Expr, string) {
	switch rapid.IntRange(0, 5).Draw(t, "anykind") {
	case 0:
		e, n := pickClass(t, numClasses)
		return m.AsAny(e), "num:" + n
	case 1:
		e, n := pickClass(t, strClasses)
		return m.AsAny(e), "str:" + n
	case 2:
		return m.AsAny(m.BoolLit(rapid.Bool().Draw(t, "b"))), "bool"
	case 3:
		e, n := pickClass(t, numClasses)
		return m.AsAny(&m.ArrLit{Ty: m.ArrOf(m.TNum), Elems: []m.Expr{e, m.NumLit(2)}}), "array:" + n
	case 4:
		return m.AsAny(&m.ArrLit{Ty: m.ArrOf(m.TAny)}), "emptyarray"
	default:
		e, n := pickClass(t, strClasses)
		return m.AsAny(&m.MapLit{Ty: m.MapOf(m.TStr), Keys: []string{"k"}, Vals: []m.Expr{e}}), "map:" + n
	}
}

// TestBuiltins: every built-in with boundary-class arguments; the run must end in an allowed
// way and, if it completes, typeof of the result is the declared return type.
func TestBuiltins(t *testing.T) {
	if h.ReplayPath() != "" {
		t.Skip("replay run")
	}
	ctx := h.Setup(t, "C02")
	setupExclusions(ctx)
	rapid.Check(t, func(t *rapid.T) {
		sg := sigs[rapid.IntRange(0, len(sigs)-1).Draw(t, "builtin")]
		call := &m.Call{Fn: sg.name, Ty: m.TNone}
		var classes []string
		addArg := func(kind byte) {
			switch kind {
			case 'n':
				e, n := pickClass(t, numClasses)
				call.Args = append(call.Args, e)
				classes = append(classes, n)
			case 's':
				e, n := pickClass(t, strClasses)
				call.Args = append(call.Args, e)
				classes = append(classes, n)
			case 'a':
				e, n := anyArg(t)
				call.Args = append(call.Args, e)
				classes = append(classes, n)
			case 'A':
				et := []*m.Type{m.TNum, m.TStr, m.TAny}[rapid.IntRange(0, 2).Draw(t, "elem")]
				a := &m.ArrLit{Ty: m.ArrOf(et)}
				for i, n := 0, rapid.IntRange(0, 3).Draw(t, "n"); i < n; i++ {
					switch et.K {
					case m.Num:
						e, _ := pickClass(t, numClasses)
						a.Elems = append(a.Elems, e)
					case m.Str:
						e, _ := pickClass(t, strClasses)
						a.Elems = append(a.Elems, e)
					default:
						e, _ := anyArg(t)
						a.Elems = append(a.Elems, e)
					}
				}
				if et.K == m.Any && len(a.Elems) > 0 {
					a.Elems = append([]m.Expr{m.AsAny(m.NumLit(1)), m.AsAny(m.StrLit("s"))}, a.Elems...)
				}
				call.Args = append(call.Args, a)
				classes = append(classes, "array")
			case 'M':
				mp := &m.MapLit{Ty: m.MapOf(m.TNum)}
				for i, n := 0, rapid.IntRange(0, 2).Draw(t, "n"); i < n; i++ {
					mp.Keys = append(mp.Keys, []string{"a", "b"}[i])
					mp.Vals = append(mp.Vals, m.NumLit(float64(i)))
				}
				call.Args = append(call.Args, mp)
				classes = append(classes, "map")
			case 'P': // poly vertex
				a := &m.ArrLit{Ty: m.ArrOf(m.TNum)}
				for i, n := 0, rapid.IntRange(0, 3).Draw(t, "n"); i < n; i++ {
					e, _ := pickClass(t, numClasses)
					a.Elems = append(a.Elems, e)
				}
				call.Args = append(call.Args, a)
				classes = append(classes, "vertex")
			case 'F': // font properties
				mp := &m.MapLit{Ty: m.MapOf(m.TAny)}
				props := []string{"family", "size", "weight", "style", "baseline", "align", "letterspacing", "bogus"}
				for i, n := 0, rapid.IntRange(0, 3).Draw(t, "n"); i < n; i++ {
					k := props[rapid.IntRange(0, len(props)-1).Draw(t, "prop")]
					dup := false
					for _, kk := range mp.Keys {
						dup = dup || kk == k
					}
					if dup {
						continue
					}
					mp.Keys = append(mp.Keys, k)
					var v m.Expr
					if rapid.Bool().Draw(t, "numval") {
						v, _ = pickClass(t, numClasses)
					} else {
						v = m.StrLit(rapid.SampledFrom([]string{"top", "middle", "bottom", "left", "center", "right", "italic", "serif", "", "alphabetic", "bogus"}).Draw(t, "sval"))
					}
					mp.Vals = append(mp.Vals, m.AsAny(v))
				}
				call.Args = append(call.Args, mp)
				classes = append(classes, "fontprops")
			}
		}
		ps := sg.params
		for i := 0; i < len(ps); i++ {
			if i+1 < len(ps) && ps[i+1] == '*' {
				for j, n := 0, rapid.IntRange(0, 7).Draw(t, "nvariadic"); j < n; j++ {
					addArg(ps[i])
				}
				i++
				continue
			}
			addArg(ps[i])
		}
		prog := &m.Program{}
		c := Case{Origin: "builtin:" + sg.name, Inputs: []string{"line1"}}
		if sg.ret != "" {
			call.Ty = m.TNum // only the rendering matters
			prog.Items = append(prog.Items,
				m.Item{S: &m.Decl{Name: "r", Ty: m.TNum, Init: call}},
				m.Item{S: gen.Print(m.StrLit("typeof"))},
				m.Item{S: gen.Print(&m.Call{Fn: "typeof", Args: []m.Expr{m.AsAny(&m.Var{Name: "r", Ty: m.TNum})}, Ty: m.TStr})},
			)
			c.Typeof = sg.ret
		} else {
			prog.Items = append(prog.Items, m.Item{S: &m.CallStmt{C: call}}, m.Item{S: gen.Print(m.StrLit("done"))})
		}
		c.Src, _ = m.Render(prog, m.Canonical{})
		current(c.Src)
		fl, res := checkCase(c)
		out := "?"
		if res != nil {
			out = res.Out.Class
		}
		key := sg.name + "(" + strings.Join(classes, ",") + ")"
		ctx.Rec.Case(len(classes) > 0, key, "source:builtin", "builtin:"+sg.name, "builtin-outcome:"+strings.SplitN(out, ":", 2)[0])
		if ctx.Rec.WantSample() && out != "ok" && len(c.Src) < 300 {
			ctx.Rec.Sample(map[string]any{"origin": c.Origin, "src": c.Src, "outcome": out})
		}
		ctx.Report(t, fl)
	})
}

func TestReplay(t *testing.T) {
	path := h.ReplayPath()
	if path == "" {
		t.Skip("no replay requested")
	}
	ctx := h.Setup(t, "C02")
	setupExclusions(ctx)
	var c Case
	if _, err := h.LoadReplay(path, &c); err != nil {
		t.Fatalf("cannot load replay: %v", err)
	}
	fl, _ := checkCase(c)
	ctx.FinishReplay(t, fl)
}

var _ = corpus.All
