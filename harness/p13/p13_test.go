// Package p13 decides C13: built-in functions do what their documentation says.
package p13

import (
	"bytes"
	"context"
	"fmt"
	"math"
	"os"
	"os/exec"
	"path/filepath"
	"strconv"
	"strings"
	"testing"
	"time"
	"unicode"

	"pgregory.net/rapid"
	"verif/harness/corpus"
	"verif/harness/h"
	"verif/harness/m"
	"verif/harness/rec"
)

// Case is a probe program with the output lines and outcome the documentation prescribes.
type Case struct {
	Src      string      `json:"src"`
	Inputs   []string    `json:"inputs,omitempty"`
	Want     []string    `json:"want_lines"`             // expected output lines, "*" = any line
	Class    string      `json:"want_class"`             // expected outcome class ("a|b" = either)
	MsgHas   string      `json:"msg_contains,omitempty"` // substring of the error message
	Fn       string      `json:"fn"`
	Classes  []string    `json:"arg_classes"`
	Why      string      `json:"why"`
	FailFast bool        `json:"fail_fast,omitempty"`
	CLIOut   bool        `json:"cli_output,omitempty"` // compare evy run\'s stdout with the recorded print text
	NumRange *[2]float64 `json:"num_range,omitempty"`  // the single output line is a number in [lo, hi) and integral if IntOnly
	IntOnly  bool        `json:"int_only,omitempty"`
	ExitCode *int        `json:"exit_code,omitempty"` // also run the real binary and compare the status
}

func q(s string) string { return m.Quote(s) }

func num(f float64) string {
	if f < 0 || (f == 0 && math.Signbit(f)) {
		return "(-" + strconv.FormatFloat(-f, 'f', -1, 64) + ")"
	}
	return strconv.FormatFloat(f, 'f', -1, 64)
}

func checkCase(c Case) *h.Failure {
	res := rec.Run(c.Src, rec.Opts{Inputs: c.Inputs, Fuel: 50000, FailFast: c.FailFast})
	mk := func(kind, detail string) *h.Failure {
		cs := rec.TopFrame(res.Out.Stack)
		if cs == "" {
			cs = "builtin " + c.Fn
		}
		return &h.Failure{Kind: kind, Detail: fmt.Sprintf("%s %v: %s (%s)", c.Fn, c.Classes, detail, c.Why), Src: c.Src, Case: c, Callsite: cs}
	}
	switch res.Out.Class {
	case "gopanic":
		return mk("gopanic", "host crash: "+res.Out.Msg)
	case "parse":
		return mk("rejected", "probe was rejected: "+res.Out.Msg)
	case "internal":
		return mk("internal", res.Out.Msg)
	}
	if res.FuelOut || res.TooMuch {
		return mk("hang", "the call did not finish within the fuel budget")
	}
	okClass := false
	for _, w := range strings.Split(c.Class, "|") {
		okClass = okClass || w == res.Out.Class
	}
	if !okClass {
		return mk("outcome", fmt.Sprintf("ended with %s, documented outcome is %s", res.Out, c.Class))
	}
	if c.MsgHas != "" && res.Out.Class != "ok" && !strings.Contains(res.Out.Msg, c.MsgHas) {
		return mk("message", fmt.Sprintf("message %q does not contain %q", res.Out.Msg, c.MsgHas))
	}
	text := rec.PrintText(res.Trace)
	got := strings.Split(text, "\n")
	if len(got) > 0 && got[len(got)-1] == "" {
		got = got[:len(got)-1]
	}
	if c.NumRange != nil && res.Out.Class == "ok" {
		if len(got) != 1 {
			return mk("output", fmt.Sprintf("expected one number, got %q", text))
		}
		f, err := strconv.ParseFloat(got[0], 64)
		if err != nil || !(f >= c.NumRange[0] && f < c.NumRange[1]) || (c.IntOnly && f != math.Trunc(f)) {
			return mk("range", fmt.Sprintf("result %q is not in [%v, %v) (integral: %v)", got[0], c.NumRange[0], c.NumRange[1], c.IntOnly))
		}
		return nil
	}
	if res.Out.Class == "ok" || strings.Contains(c.Class, res.Out.Class) && len(c.Want) > 0 {
		if len(got) != len(c.Want) {
			return mk("output", fmt.Sprintf("expected %d output lines %q, got %d: %q", len(c.Want), c.Want, len(got), got))
		}
		for i := range got {
			if c.Want[i] != "*" && got[i] != c.Want[i] {
				return mk("output", fmt.Sprintf("output line %d is %q, documented result gives %q (all lines: %q)", i+1, got[i], c.Want[i], got))
			}
		}
	}
	if c.ExitCode != nil {
		if fl := cliExit(c); fl != nil {
			return fl
		}
	}
	if c.CLIOut && res.Out.Class == "ok" && c.NumRange == nil {
		if fl := cliOutput(c, text); fl != nil {
			return fl
		}
	}
	return nil
}

// cliOutput: what a program prints is the same text on the command line's platform as on
// the recording platform (print writes its arguments to the output, builtins.md#print).
func cliOutput(c Case, text string) *h.Failure {
	bin := filepath.Join(os.Getenv("VERIF_BUILD"), "evy")
	if _, err := os.Stat(bin); err != nil {
		return nil
	}
	dir, _ := os.MkdirTemp("", "verif-c13-")
	defer os.RemoveAll(dir)
	f := filepath.Join(dir, "p.evy")
	os.WriteFile(f, []byte(c.Src), 0o644) //nolint:errcheck
	ctx, cancel := context.WithTimeout(context.Background(), 30*time.Second)
	defer cancel()
	cmd := exec.CommandContext(ctx, bin, "run", "--skip-sleep", f)
	var so, se bytes.Buffer
	cmd.Stdout, cmd.Stderr = &so, &se
	if err := cmd.Run(); err != nil {
		return nil // exit status and messages are cliExit's business
	}
	if so.String() != text {
		return &h.Failure{Kind: "cli-output", Detail: fmt.Sprintf("%s: evy run prints %q, the program's print calls produce %q", c.Fn, so.String(), text), Src: c.Src, Case: c}
	}
	return nil
}

func cliExit(c Case) *h.Failure {
	bin := filepath.Join(os.Getenv("VERIF_BUILD"), "evy")
	if _, err := os.Stat(bin); err != nil {
		return nil
	}
	dir, _ := os.MkdirTemp("", "verif-c13-")
	defer os.RemoveAll(dir)
	f := filepath.Join(dir, "p.evy")
	os.WriteFile(f, []byte(c.Src), 0o644) //nolint:errcheck
	args := []string{"run", f}
	if c.FailFast {
		args = []string{"run", "--fail-fast", f}
	}
	cmd := exec.Command(bin, args...)
	out, err := cmd.CombinedOutput()
	code := 0
	if ee, ok := err.(*exec.ExitError); ok {
		code = ee.ExitCode()
	}
	if code != *c.ExitCode {
		return &h.Failure{Kind: "exit-status", Detail: fmt.Sprintf("%s: evy run exits %d, documented status is %d; output: %s", c.Fn, code, *c.ExitCode, out), Src: c.Src, Case: c}
	}
	if c.MsgHas != "" && !strings.Contains(string(out), c.MsgHas) {
		return &h.Failure{Kind: "cli-message", Detail: fmt.Sprintf("%s: evy run output %q does not contain %q", c.Fn, out, c.MsgHas), Src: c.Src, Case: c}
	}
	return nil
}

// ---- value classes ----

var strPool = []struct{ s, class string }{
	{"", "empty"}, {"a", "one"}, {"abc", "ascii"}, {"abcabc", "repeat"}, {"aaa", "overlap"}, {"äbc", "nonascii-first"}, {"abä", "nonascii-last"},
	{"日本語", "cjk"}, {"🌍x🌍", "emoji"}, {"a b c", "spaces"}, {" pad ", "padded"}, {".,..abc.de.", "cutset"}, {"ABC def", "mixedcase"},
	{"Ünï", "accents"}, {"a,b,,c", "commas"}, {"x\ty", "tab"}, {"q\"uote", "quote"}, {"b\\s", "backslash"}, {"ß", "eszett"}, {"ǆ", "digraph"},
}

func drawStr(t *rapid.T, label string) (string, string) {
	e := strPool[rapid.IntRange(0, len(strPool)-1).Draw(t, label)]
	return e.s, e.class
}

func drawSub(t *rapid.T, s string) (string, string) {
	r := []rune(s)
	switch rapid.IntRange(0, 5).Draw(t, "subkind") {
	case 0:
		return "", "empty"
	case 1, 2:
		if len(r) > 0 {
			lo := rapid.IntRange(0, len(r)-1).Draw(t, "lo")
			hi := rapid.IntRange(lo+1, len(r)).Draw(t, "hi")
			return string(r[lo:hi]), "substring"
		}
		return "", "empty"
	case 3:
		return s, "whole"
	default:
		x, c := drawStr(t, "other")
		return x, "other:" + c
	}
}

func runeIndex(s, sub string) int {
	rs, rsub := []rune(s), []rune(sub)
	for i := 0; i+len(rsub) <= len(rs); i++ {
		if string(rs[i:i+len(rsub)]) == sub {
			return i
		}
	}
	return -1
}

func strArrLit(a []string) string {
	parts := make([]string, len(a))
	for i, s := range a {
		parts[i] = q(s)
	}
	return "[" + strings.Join(parts, " ") + "]"
}

func mySplit(s, sep string) []string {
	if sep == "" {
		var out []string
		for _, r := range s {
			out = append(out, string(r))
		}
		return out
	}
	var out []string
	rs, rsep := []rune(s), []rune(sep)
	start := 0
	for i := 0; i+len(rsep) <= len(rs); {
		if string(rs[i:i+len(rsep)]) == sep {
			out = append(out, string(rs[start:i]))
			i += len(rsep)
			start = i
			continue
		}
		i++
	}
	return append(out, string(rs[start:]))
}

func myReplace(s, old, nw string) string {
	return strings.Join(mySplit(s, old), nw)
}

func myTrim(s, cut string) string {
	r := []rune(s)
	in := func(c rune) bool { return strings.ContainsRune(cut, c) }
	for len(r) > 0 && in(r[0]) {
		r = r[1:]
	}
	for len(r) > 0 && in(r[len(r)-1]) {
		r = r[:len(r)-1]
	}
	return string(r)
}

func mapRunes(s string, f func(rune) rune) string {
	var sb strings.Builder
	for _, r := range s {
		sb.WriteRune(f(r))
	}
	return sb.String()
}

var numPool = []struct {
	f     float64
	class string
}{
	{0, "zero"}, {1, "one"}, {-1, "minus-one"}, {2, "two"}, {3, "three"}, {10, "ten"}, {0.5, "half"}, {-0.5, "neg-half"}, {2.5, "two-half"}, {-2.5, "neg-two-half"},
	{1.5, "one-half"}, {3.5, "three-half"}, {2.4, "frac-low"}, {2.6, "frac-high"}, {-2.4, "neg-frac"}, {9, "nine"}, {16, "sixteen"}, {100, "hundred"}, {1e6, "million"},
	{2147483647, "2^31-1"}, {0.25, "quarter"}, {-7, "neg-seven"}, {1e15, "big"}, {0.001, "small"},
}

func drawNum(t *rapid.T, label string) (float64, string) {
	e := numPool[rapid.IntRange(0, len(numPool)-1).Draw(t, label)]
	return e.f, e.class
}

// resultCheck builds "r := call" + equality test lines for an expected string/num/bool value.
func probe(call, wantLit string) (string, []string) {
	return "r := " + call + "\nprint (r == " + wantLit + ") (repr r)\n", []string{"true " + "*"}
}

// ---- generators per group ----

func genString(t *rapid.T) Case {
	fn := rapid.SampledFrom([]string{"upper", "lower", "index", "startswith", "endswith", "trim", "replace", "split", "join", "len", "split-join"}).Draw(t, "fn")
	s, sc := drawStr(t, "s")
	c := Case{Fn: fn, Class: "ok", Classes: []string{sc}}
	line := func(call, want, why string) {
		c.Src = "r := " + call + "\nprint (r == " + want + ")\nprint (repr r)\n"
		c.Want = []string{"true", "*"}
		c.Why = why + "; expected " + want
	}
	switch fn {
	case "upper":
		line("upper "+q(s), q(mapRunes(s, unicode.ToUpper)), "all lowercase letters converted to uppercase, others unchanged")
	case "lower":
		line("lower "+q(s), q(mapRunes(s, unicode.ToLower)), "all uppercase letters converted to lowercase, others unchanged")
	case "len":
		line("len "+q(s), strconv.Itoa(len([]rune(s))), "number of characters (code points)")
	case "index":
		sub, subc := drawSub(t, s)
		c.Classes = append(c.Classes, subc)
		line("index "+q(s)+" "+q(sub), num(float64(runeIndex(s, sub))), "position (in characters, like every other index) of the first occurrence, or -1")
	case "startswith":
		sub, subc := drawSub(t, s)
		c.Classes = append(c.Classes, subc)
		rs, rp := []rune(s), []rune(sub)
		want := len(rp) <= len(rs) && string(rs[:len(rp)]) == sub
		line("startswith "+q(s)+" "+q(sub), strconv.FormatBool(want), "whether s begins with prefix")
	case "endswith":
		sub, subc := drawSub(t, s)
		c.Classes = append(c.Classes, subc)
		rs, rp := []rune(s), []rune(sub)
		want := len(rp) <= len(rs) && string(rs[len(rs)-len(rp):]) == sub
		line("endswith "+q(s)+" "+q(sub), strconv.FormatBool(want), "whether s ends with suffix")
	case "trim":
		cut, cc := drawSub(t, s)
		c.Classes = append(c.Classes, cc)
		line("trim "+q(s)+" "+q(cut), q(myTrim(s, cut)), "characters of cutset removed from both ends")
	case "replace":
		old, oc := drawSub(t, s)
		nw, _ := drawStr(t, "new")
		c.Classes = append(c.Classes, oc)
		if old == "" {
			old = "zzz" // the documentation does not say what an empty 'old' means
			c.Classes[len(c.Classes)-1] = "absent"
		}
		line("replace "+q(s)+" "+q(old)+" "+q(nw), q(myReplace(s, old, nw)), "all occurrences of old replaced by new")
	case "split":
		sep, sc2 := drawSub(t, s)
		c.Classes = append(c.Classes, sc2)
		want := mySplit(s, sep)
		if s == "" && sep == "" {
			want = nil
		}
		line("split "+q(s)+" "+q(sep), strArrLit(want)+"+[]", "substrings separated by sep; after each character for an empty sep; [] if both are empty")
		c.Src = "e:[]string\n" + strings.Replace(c.Src, "+[])", "+e)", 1)
	case "split-join":
		sep, sc2 := drawSub(t, s)
		if sep == "" {
			sep = ","
		}
		c.Classes = append(c.Classes, sc2)
		line("join (split "+q(s)+" "+q(sep)+") "+q(sep), q(s), "join inverts split for a non-empty separator")
	case "join":
		n := rapid.IntRange(0, 4).Draw(t, "n")
		var parts, want []string
		for i := 0; i < n; i++ {
			switch rapid.IntRange(0, 3).Draw(t, "elkind") {
			case 0:
				x, _ := drawStr(t, "el")
				parts, want = append(parts, q(x)), append(want, x)
			case 1:
				f, _ := drawNum(t, "elnum")
				parts, want = append(parts, num(f)), append(want, m.FormatNum(f))
			case 2:
				parts, want = append(parts, "true"), append(want, "true")
			default:
				parts, want = append(parts, "[1 \"x\"]"), append(want, "[1 x]")
			}
		}
		sep, _ := drawStr(t, "sep")
		c.Classes = []string{fmt.Sprintf("n=%d", n)}
		arr := "[" + strings.Join(parts, " ") + "]"
		line("join "+arr+" "+q(sep), q(strings.Join(want, sep)), "elements formatted as strings, separated by sep")
	}
	return c
}

func genConv(t *rapid.T) Case {
	isBool := rapid.Bool().Draw(t, "bool")
	// make err and errmsg dirty first, in half of the cases, to see the reset
	dirty := rapid.Bool().Draw(t, "dirty")
	pre := ""
	if dirty {
		pre = "d := str2num \"dirty\"\nprint d err\n"
	}
	c := Case{Class: "ok"}
	var arg, class string
	if isBool {
		c.Fn = "str2bool"
		arg = rapid.SampledFrom([]string{"true", "True", "TRUE", "1", "false", "False", "FALSE", "0", "", "t", "T", "f", "F", "yes", "no", "tRuE", "truee", " true", "2", "on", "ä"}).Draw(t, "arg")
		val, valid := false, true
		switch arg {
		case "true", "True", "TRUE", "1":
			val = true
		case "false", "False", "FALSE", "0":
		default:
			valid = false
		}
		class = map[bool]string{true: "documented-spelling", false: "not-a-documented-spelling"}[valid]
		c.Src = pre + "r := str2bool " + q(arg) + "\nprint r err\nprint errmsg\n"
		if valid {
			c.Want = []string{strconv.FormatBool(val) + " false", ""}
			c.Why = "one of the eight documented spellings: value, err reset to false, errmsg reset to empty"
		} else {
			c.Want = []string{"false true", "str2bool: cannot parse " + strconv.Quote(arg)}
			c.Why = "not a valid boolean: returns false, sets err, errmsg describes the error"
			if strings.ContainsAny(arg, "ä") {
				c.Want[1] = "*"
			}
		}
	} else {
		c.Fn = "str2num"
		arg = rapid.SampledFrom([]string{"1", "0", "-2.5", "+3", "007", "12.", ".5", "1000000", "abc", "", "1x", "NOT-A-NUMBER", "1 2", " 1", "--1", "1e999", "-1e999", "1e5", "0x10", "inf", "nan", "Infinity", "1_000", "٣"}).Draw(t, "arg")
		switch {
		case regexpDecimal(arg):
			f, _ := strconv.ParseFloat(arg, 64)
			class = "decimal"
			c.Src = pre + "r := str2num " + q(arg) + "\nprint (r == " + num(f) + ") err\nprint errmsg\n"
			c.Want = []string{"true false", ""}
			c.Why = "valid number: value, err reset to false, errmsg reset to empty"
		case arg == "1e999" || arg == "-1e999" || arg == "1e5" || arg == "0x10" || arg == "inf" || arg == "nan" || arg == "Infinity" || arg == "1_000" || arg == "٣":
			// the documents do not say whether these spellings are numbers; but a failure must return 0
			class = "unclassified-spelling"
			c.Src = pre + "r := str2num " + q(arg) + "\nprint (!err or r == 0)\n"
			c.Want = []string{"true"}
			c.Why = "whatever counts as a valid number: when err is set the result is 0"
		default:
			class = "not-a-number"
			c.Src = pre + "r := str2num " + q(arg) + "\nprint r err\nprint errmsg\n"
			c.Want = []string{"0 true", "str2num: cannot parse " + strconv.Quote(arg)}
			c.Why = "not a valid number: returns 0, sets err, errmsg describes the error"
		}
	}
	if dirty {
		c.Want = append([]string{"0 true"}, c.Want...)
		class += "+after-error"
	}
	// err and errmsg are globals: where the conversion is called from makes no difference to
	// what the top level reads afterwards
	if i := strings.Index(c.Src, "r := "); i >= 0 {
		j := i + strings.Index(c.Src[i:], "\n")
		call, rty := c.Src[i+len("r := "):j], map[bool]string{true: "bool", false: "num"}[isBool]
		place := rapid.SampledFrom([]string{"top", "top", "if-block", "for-block", "function", "function-in-block", "nested-blocks"}).Draw(t, "place")
		repl := ""
		switch place {
		case "if-block":
			repl = "r:" + rty + "\nif true\n    r = " + call + "\nend"
		case "for-block":
			repl = "r:" + rty + "\nfor range 1\n    r = " + call + "\nend"
		case "function":
			repl = "func conv:" + rty + "\n    return (" + call + ")\nend\nr := conv"
		case "function-in-block":
			repl = "func conv:" + rty + "\n    x := " + call + "\n    return x\nend\nr:" + rty + "\nif true\n    r = conv\nend"
		case "nested-blocks":
			repl = "r:" + rty + "\nfor range 1\n    if true\n        while true\n            r = " + call + "\n            break\n        end\n    end\nend"
		}
		if repl != "" {
			c.Src = c.Src[:i] + repl + c.Src[j:]
			class += "+called-from-" + place
		}
	}
	c.Classes = []string{class}
	return c
}

func regexpDecimal(s string) bool {
	if s == "" {
		return false
	}
	i := 0
	if s[0] == '+' || s[0] == '-' {
		i = 1
	}
	digits, dot := 0, 0
	for ; i < len(s); i++ {
		switch {
		case s[i] >= '0' && s[i] <= '9':
			digits++
		case s[i] == '.':
			dot++
		default:
			return false
		}
	}
	return digits > 0 && dot <= 1
}

func genMath(t *rapid.T) Case {
	fn := rapid.SampledFrom([]string{"abs", "floor", "ceil", "round", "sqrt", "min", "max", "pow", "log", "sin", "cos", "atan2"}).Draw(t, "fn")
	x, xc := drawNum(t, "x")
	c := Case{Fn: fn, Class: "ok", Classes: []string{xc}}
	eq := func(call string, want float64, why string) {
		if math.IsNaN(want) {
			c.Src = "r := " + call + "\nprint (r != r)\n"
		} else if math.IsInf(want, 0) {
			c.Src = "r := " + call + "\nprint (r == " + map[bool]string{true: "1/0", false: "(-1)/0"}[want > 0] + ")\n"
		} else {
			c.Src = "r := " + call + "\nprint (r == " + num(want) + ")\nprint r\n"
			c.Want = []string{"true", "*"}
			c.Why = why + "; expected " + num(want)
			return
		}
		c.Want = []string{"true"}
		c.Why = why
	}
	switch fn {
	case "abs":
		eq("abs "+num(x), math.Abs(x), "magnitude without sign")
	case "floor":
		eq("floor "+num(x), math.Floor(x), "greatest integer <= n")
	case "ceil":
		eq("ceil "+num(x), math.Ceil(x), "smallest integer >= n")
	case "round":
		want := math.Floor(math.Abs(x) + 0.5)
		if x < 0 {
			want = -want
		}
		eq("round "+num(x), want, "nearest integer, half away from zero")
	case "sqrt":
		if x < 0 {
			eq("sqrt "+num(x), math.NaN(), "no real square root")
		} else {
			c.Src = "r := sqrt " + num(x*x) + "\nprint (r == " + num(x) + ")\nprint r\n"
			c.Want, c.Why = []string{"true", "*"}, "sqrt of an exact square"
			if x*x > 1e15 {
				c.Src = "r := sqrt " + num(x) + "\nprint (r >= 0)\n"
				c.Want = []string{"true"}
			}
		}
	case "min", "max":
		y, yc := drawNum(t, "y")
		c.Classes = append(c.Classes, yc)
		want := math.Min(x, y)
		if fn == "max" {
			want = math.Max(x, y)
		}
		if rapid.Bool().Draw(t, "swap") {
			x, y = y, x
		}
		eq(fn+" "+num(x)+" "+num(y), want, "smaller/greater of the two, in either argument order")
	case "pow":
		e := float64(rapid.IntRange(0, 3).Draw(t, "exp"))
		want := 1.0
		for i := 0; i < int(e); i++ {
			want *= x
		}
		if math.Abs(want) > 1e15 || want != math.Trunc(want*1e6)/1e6 {
			c.Src = "r := pow " + num(x) + " " + num(e) + "\nprint (r == r)\n"
			c.Want, c.Why = []string{"true"}, "finite result"
		} else {
			eq("pow "+num(x)+" "+num(e), want, "b multiplied by itself exp times")
		}
		c.Classes = append(c.Classes, fmt.Sprintf("exp=%v", e))
	case "log":
		c.Src = "print ((log 1) == 0) ((log " + num(math.Abs(x)+2) + ") > 0)\n"
		c.Want, c.Why = []string{"true true"}, "log 1 is 0, log of a number > 1 is positive"
	case "sin", "cos":
		c.Src = "r := " + fn + " " + num(x) + "\nprint (r >= -1 and r <= 1)\nprint ((sin 0) == 0) ((cos 0) == 1)\n"
		c.Want, c.Why = []string{"true", "true true"}, "values in [-1,1]; sin 0 = 0, cos 0 = 1"
	case "atan2":
		c.Src = "print ((atan2 0 1) == 0) ((atan2 1 1)*4 == pi) ((atan2 1 0)*2 == pi)\n"
		c.Want, c.Why = []string{"true true true"}, "angle of the ray to the point"
	}
	return c
}

func genRand(t *rapid.T) Case {
	c := Case{Fn: "rand"}
	if rapid.IntRange(0, 4).Draw(t, "rand1") == 0 {
		c.Fn = "rand1"
		c.Src, c.Class, c.Why = "print (rand1)\n", "ok", "value in [0,1)"
		c.NumRange = &[2]float64{0, 1}
		c.Classes = []string{"-"}
		return c
	}
	type rc struct {
		src, class string
		f          float64
	}
	cands := []rc{{"1", "one", 1}, {"2", "two", 2}, {"6", "small", 6}, {"100", "hundred", 100}, {"2147483647", "2^31-1", 2147483647}, {"2.5", "fraction", 2.5},
		{"0", "zero", 0}, {"(-1)", "negative", -1}, {"(-0.5)", "negative-fraction", -0.5}, {"(0/0)", "nan", math.NaN()}, {"((-1)/0)", "neg-inf", math.Inf(-1)}, {"0.5", "between-0-and-1", 0.5}}
	k := cands[rapid.IntRange(0, len(cands)-1).Draw(t, "n")]
	c.Classes = []string{k.class}
	c.Src = "print (rand " + k.src + ")\n"
	switch {
	case math.IsNaN(k.f) || k.f <= 0:
		c.Class, c.Why, c.MsgHas = "panic:badargs", "a panic occurs for n <= 0 (and for NaN)", ""
	case k.f < 1:
		c.Class, c.Why = "ok|panic:badargs", "0 < n < 1: the text says [0,n), the stated range starts at 1; either is accepted"
		c.NumRange, c.IntOnly = &[2]float64{0, 1}, true
	default:
		c.Class, c.Why = "ok", "non-negative integer in [0,n)"
		c.NumRange, c.IntOnly = &[2]float64{0, k.f}, true
	}
	return c
}

func genFormat(t *rapid.T) Case {
	c := Case{Class: "ok"}
	kind := rapid.SampledFrom([]string{"sprint", "print", "sprintf-v", "printf-verbs", "repr", "repr-roundtrip", "typeof", "printf-mismatch"}).Draw(t, "kind")
	c.Fn = kind
	// a small pool of values with their literal, print form, repr form and type
	type val struct{ lit, show, repr, ty string }
	vals := []val{
		{"1", "1", "1", "num"}, {"(-2.5)", "-2.5", "-2.5", "num"}, {"1000000", "1000000", "1000000", "num"}, {"0.125", "0.125", "0.125", "num"},
		{q("abc"), "abc", `"abc"`, "string"}, {q(""), "", `""`, "string"}, {q("q\"uote"), "q\"uote", `"q\"uote"`, "string"}, {q("ä 日"), "ä 日", `"ä 日"`, "string"},
		{"true", "true", "true", "bool"}, {"false", "false", "false", "bool"},
		{"[1 2]", "[1 2]", "[1 2]", "[]num"}, {"[" + q("a") + " " + q("b c") + "]", "[a b c]", `["a" "b c"]`, "[]string"}, {"[1 " + q("x") + " true]", "[1 x true]", `[1 "x" true]`, "[]any"},
		{"{a:1 b:2}", "{a:1 b:2}", "{a:1 b:2}", "{}num"}, {"{name:" + q("Jo") + "}", "{name:Jo}", `{name:"Jo"}`, "{}string"}, {"[[1] [2 3]]", "[[1] [2 3]]", "[[1] [2 3]]", "[][]num"},
		{"{for:[true]}", "{for:[true]}", "{for:[true]}", "{}[]bool"}, {"[{a:" + q("s") + "}]", "[{a:s}]", `[{a:"s"}]`, "[]{}string"},
	}
	n := rapid.IntRange(0, 3).Draw(t, "nargs")
	var picked []val
	for i := 0; i < n; i++ {
		picked = append(picked, vals[rapid.IntRange(0, len(vals)-1).Draw(t, "val")])
	}
	lits := func() string {
		var s []string
		for _, v := range picked {
			s = append(s, v.lit)
		}
		return strings.Join(s, " ")
	}
	shows := func(sep string) string {
		var s []string
		for _, v := range picked {
			s = append(s, v.show)
		}
		return strings.Join(s, sep)
	}
	c.Classes = []string{fmt.Sprintf("%d args", n)}
	switch kind {
	case "sprint":
		c.Src = "r := sprint " + lits() + "\nprint (r == " + q(shows(" ")) + ")\nprint (repr r)\n"
		c.Want, c.Why = []string{"true", "*"}, "arguments separated by a single space, no newline"
	case "print":
		c.Src = "print " + lits() + "\nprint \"|\"\n"
		c.Want = append(strings.Split(shows(" "), "\n"), "|")
		c.Why = "arguments separated by a single space, terminated by a newline"
	case "sprintf-v":
		format := strings.TrimSpace(strings.Repeat("%v,", n)) + "100%%"
		c.Src = "r := sprintf " + q(format) + " " + lits() + "\nprint (r == " + q(shows(",")+map[bool]string{true: ",", false: ""}[n > 0]+"100%") + ")\nprint (repr r)\n"
		c.Want, c.Why = []string{"true", "*"}, "%v is the default format of print, %% a percent sign"
	case "printf-verbs":
		f, _ := drawNum(t, "f")
		verb := rapid.SampledFrom([]string{"%f", "%.2f", "%7.2f", "%-7.2f|", "%07.2f", "%.f", "%e", "%s", "%q", "%t", "%5s|", "%-5s|", "%v"}).Draw(t, "verb")
		var arg, want string
		switch {
		case strings.HasSuffix(strings.TrimSuffix(verb, "|"), "f") || verb == "%e":
			arg, want = num(f), fmt.Sprintf(verb, f)
		case strings.Contains(verb, "s") || verb == "%q":
			arg, want = q("ab"), fmt.Sprintf(verb, "ab")
		case verb == "%t":
			arg, want = "true", "true"
		default:
			arg, want = num(f), m.FormatNum(f)
		}
		c.Classes = []string{verb}
		c.Src = "printf " + q(verb+"\n") + " " + arg + "\nr := sprintf " + q(verb) + " " + arg + "\nprint (r == " + q(want) + ")\n"
		c.Want, c.Why = []string{want, "true"}, "documented verbs with width, precision and alignment; printf and sprintf format alike"
	case "printf-mismatch":
		pair := rapid.SampledFrom([][2]string{{"%s", "1"}, {"%q", "true"}, {"%f", "\"a\""}, {"%e", "true"}, {"%t", "1"}, {"%t", "\"true\""}, {"%f", "[1]"}}).Draw(t, "pair")
		c.Classes = []string{pair[0] + " with " + pair[1]}
		fn := rapid.SampledFrom([]string{"printf", "sprintf"}).Draw(t, "fn")
		if fn == "printf" {
			c.Src = "printf " + q(pair[0]+"\n") + " " + pair[1] + "\n"
		} else {
			c.Src = "print (sprintf " + q(pair[0]) + " " + pair[1] + ")\n"
		}
		c.Want, c.Class = nil, "panic:badargs|panic:other|panic:user"
		c.Why = "if the argument for %s, %q, %f, %e or %t does not match the required type, a panic will occur"
	case "repr":
		var reps []string
		for _, v := range picked {
			reps = append(reps, v.repr)
		}
		c.Src = "r := repr " + lits() + "\nprint r\nprint (r == " + q(strings.Join(reps, " ")) + ")\n"
		c.Want, c.Why = []string{"*", "true"}, "valid Evy code: strings quoted, elements space-separated"
		if n == 0 {
			c.Want = []string{"", "true"}
		}
	case "repr-roundtrip":
		// keys that are not identifiers must come out quoted, identifier and keyword keys bare
		key := rapid.SampledFrom([]string{"a", "for", "k1", "_x", "x y", "1x", "9", "", "a-b", "ä", "a.b", " a", "\"q"}).Draw(t, "key")
		ident := m.IsIdent(key) || key == "ä"
		want := "{" + key + ":1}"
		if !ident {
			want = "{" + strconv.Quote(key) + ":1}"
		}
		c.Classes = []string{"key:" + map[bool]string{true: "identifier", false: "not-an-identifier"}[ident]}
		c.Src = "mp:{}num\nmp[" + q(key) + "] = 1\nprint (repr mp)\n"
		c.Want, c.Why = []string{want}, "keys are printed without quotes only if they are valid identifiers or keywords"
	case "typeof":
		if n == 0 {
			picked = append(picked, vals[rapid.IntRange(0, len(vals)-1).Draw(t, "val")])
		}
		v := picked[0]
		c.Src = "print (typeof " + v.lit + ")\nx:any\nx = " + v.lit + "\nprint (typeof x)\n"
		c.Want, c.Why = []string{v.ty, v.ty}, "the type as written in an Evy program; the concrete type for a value held in any"
		c.Classes = []string{v.ty}
	}
	return c
}

func genControl(t *rapid.T) Case {
	kind := rapid.SampledFrom([]string{"exit", "panic", "test", "test-failfast", "len-badarg", "test-message", "test-then-exit", "test-then-panic"}).Draw(t, "kind")
	c := Case{Fn: kind}
	switch kind {
	case "exit":
		n := rapid.SampledFrom([]int{0, 1, 2, 7, 42, 255}).Draw(t, "status")
		c.Src = "print \"before\"\nexit " + strconv.Itoa(n) + "\nprint \"after\"\n"
		c.Want, c.Class, c.Why = []string{"before"}, "exit:"+strconv.Itoa(n), "terminates the program with the given status"
		c.ExitCode = &n
		c.Classes = []string{strconv.Itoa(n)}
	case "panic":
		msg, mc := drawStr(t, "msg")
		if msg == "" || strings.ContainsAny(msg, "\t\"\\") {
			msg, mc = "scale must be positive", "ascii"
		}
		one := 1
		c.Src = "print \"before\"\nif true\n    panic " + q(msg) + "\nend\nprint \"after\"\n"
		c.Want, c.Class, c.MsgHas, c.Why = []string{"before"}, "panic:user", "line 3 column 5: "+msg, "prints 'line L column C: msg' and terminates with status 1"
		c.ExitCode = &one
		c.Classes = []string{mc}
	case "test", "test-failfast":
		n := rapid.IntRange(1, 6).Draw(t, "ntests")
		var sb strings.Builder
		pass, fail := 0, 0
		stopped := false
		var want []string
		for i := 0; i < n; i++ {
			ok := rapid.Bool().Draw(t, "pass")
			form := rapid.IntRange(0, 3).Draw(t, "form")
			switch form {
			case 0:
				sb.WriteString("test " + strconv.FormatBool(ok) + "\n")
			case 1:
				sb.WriteString("test 42 " + map[bool]string{true: "42", false: "54"}[ok] + "\n")
			case 2:
				sb.WriteString("got" + strconv.Itoa(i) + ":[]any\ngot" + strconv.Itoa(i) + " = [[1] [2 " + map[bool]string{true: "3", false: "4"}[ok] + "]]\ntest [[1] [2 3]] got" + strconv.Itoa(i) + "\n")
			default:
				sb.WriteString("test " + q("a") + " " + map[bool]string{true: q("a"), false: q("b")}[ok] + " " + q("msg %v") + " 7\n")
			}
			sb.WriteString("print \"t" + strconv.Itoa(i) + "\"\n")
			if stopped {
				continue
			}
			if ok {
				pass++
			} else {
				fail++
				if kind == "test-failfast" {
					stopped = true
					continue
				}
			}
			want = append(want, "t"+strconv.Itoa(i))
		}
		plural := func(k int) string {
			if k == 1 {
				return ""
			}
			return "s"
		}
		if fail > 0 {
			want = append(want, fmt.Sprintf("❌ %d failed test%s", fail, plural(fail)), fmt.Sprintf("✔️ %d passed test%s", pass, plural(pass)))
			c.Class = "test"
			one := 1
			c.ExitCode = &one
		} else {
			want = append(want, fmt.Sprintf("✅ %d passed test%s", pass, plural(pass)))
			c.Class = "ok"
			zero := 0
			c.ExitCode = &zero
		}
		c.Src, c.Want, c.FailFast = sb.String(), want, kind == "test-failfast"
		c.Why = "counts of failed and passed tests in the summary, status 1 on any failure; fail-fast stops at the first failure"
		c.Classes = []string{fmt.Sprintf("pass=%d fail=%d", pass, fail)}
	case "test-message":
		// builtins.md#test: with three arguments the third is a message, printed as it is;
		// with four or more it is a format string for the remaining arguments (see sprintf)
		one := 1
		c.ExitCode = &one
		c.Class = "test"
		if rapid.Bool().Draw(t, "plain") {
			msg := rapid.SampledFrom([]string{"only 50% done", "100%", "%v", "%d items", "rate %s%", "a%%b", "plain", "x %5.2f y", "%", "%!"}).Draw(t, "msg")
			c.Src = "test 1 2 " + q(msg) + "\n"
			c.MsgHas = "want != got: 1 != 2 (" + msg + ")"
			c.Why = "in the case of three arguments the third argument is a message that is printed if the test fails (not a format string)"
			c.Classes = []string{"plain-message:" + msg}
		} else {
			n := rapid.IntRange(1, 3).Draw(t, "nargs")
			format, args, want := "got", "", "got"
			for i := 0; i < n; i++ {
				switch rapid.IntRange(0, 2).Draw(t, "argkind") {
				case 0:
					format, args, want = format+" %v", args+" "+strconv.Itoa(7+i), want+" "+strconv.Itoa(7+i)
				case 1:
					format, args, want = format+" %s", args+" "+q("w"+strconv.Itoa(i)), want+" w"+strconv.Itoa(i)
				default:
					format, args, want = format+" %v", args+" true", want+" true"
				}
			}
			c.Src = "test " + q("a") + " " + q("b") + " " + q(format) + args + "\n"
			c.MsgHas = "want != got: \"a\" != \"b\" (" + want + ")"
			c.Why = "in case of four or more arguments the third argument is a format string, the remaining ones replace its specifiers"
			c.Classes = []string{fmt.Sprintf("format-message:%d", n)}
		}
		c.Want = []string{"❌ 1 failed test", "✔️ 0 passed tests"}
	case "test-then-exit":
		// a failed test does not end the run (without fail-fast); a later exit still terminates it with its own status
		n := rapid.SampledFrom([]int{2, 3, 7, 42}).Draw(t, "status")
		c.Src = "test 1 2\nprint \"before\"\nexit " + strconv.Itoa(n) + "\nprint \"after\"\n"
		c.Want, c.Class, c.Why = []string{"before", "❌ 1 failed test", "✔️ 0 passed tests"}, "exit:"+strconv.Itoa(n), "exit terminates the program with the given status code, also after a failed test"
		c.ExitCode = &n
		c.Classes = []string{strconv.Itoa(n)}
	case "test-then-panic":
		one := 1
		c.Src = "test 1 2\nprint \"before\"\npanic \"boom\"\nprint \"after\"\n"
		c.Want, c.Class, c.MsgHas, c.Why = []string{"before", "❌ 1 failed test", "✔️ 0 passed tests"}, "panic:user", "line 3 column 1: boom", "a panic after a failed test is still reported with its message and status 1"
		c.ExitCode = &one
		c.Classes = []string{"boom"}
	case "len-badarg":
		arg := rapid.SampledFrom([]string{"1", "true", "(-2.5)"}).Draw(t, "arg")
		c.Src = "print (len " + arg + ")\n"
		c.Class, c.Why = "panic:badargs", "len of anything but a string, array or map is a panic"
		c.Classes = []string{arg}
	}
	return c
}

func TestProp(t *testing.T) {
	if h.ReplayPath() != "" {
		t.Skip("replay run")
	}
	ctx := h.Setup(t, "C13")
	nout, outBudget := 0, 60
	if os.Getenv("VERIF_TIER") == "thorough" {
		outBudget = 600
	}
	ncli, cliBudget := 0, 30
	if ctx.Thorough() {
		cliBudget = 300
	}
	rapid.Check(t, func(t *rapid.T) {
		var c Case
		switch rapid.SampledFrom([]string{"string", "string", "conv", "math", "rand", "format", "format", "control"}).Draw(t, "group") {
		case "string":
			c = genString(t)
		case "conv":
			c = genConv(t)
		case "math":
			c = genMath(t)
		case "rand":
			c = genRand(t)
		case "format":
			c = genFormat(t)
		default:
			c = genControl(t)
		}
		if c.ExitCode != nil {
			if ncli >= cliBudget {
				c.ExitCode = nil
			} else {
				ncli++
				ctx.Rec.Add("evy_run_exit_status_cases", 1)
			}
		}
		if nout < outBudget && c.Class == "ok" && c.NumRange == nil && !strings.Contains(c.Src, "read") && !strings.Contains(c.Src, "cls") && !strings.Contains(c.Src, "sleep") && rapid.IntRange(0, 40).Draw(t, "cliout") == 0 {
			nout++
			c.CLIOut = true
			ctx.Rec.Add("evy_run_output_cases", 1)
		}
		fl := checkCase(c)
		ctx.Rec.Case(true, c.Fn+"|"+strings.Join(c.Classes, ",")+"|"+c.Src, "builtin:"+c.Fn)
		if ctx.Rec.WantSample() && len(c.Src) < 300 {
			ctx.Rec.Sample(map[string]any{"fn": c.Fn, "classes": c.Classes, "src": c.Src, "want": c.Want, "class": c.Class, "why": c.Why})
		}
		ctx.Report(t, fl)
	})
}

// TestDocExamples runs every documented example that has an output partner.
func TestDocExamples(t *testing.T) {
	if h.ReplayPath() != "" {
		t.Skip("replay run")
	}
	ctx := h.Setup(t, "C13")
	for _, p := range corpus.All() {
		if p.Output == nil {
			continue
		}
		c := Case{Src: p.Src, Fn: "doc-example:" + p.Name, Class: "ok|exit:1|panic:user|test|panic:bounds", Why: "documented example with its documented output"}
		if p.Input != nil {
			c.Inputs = strings.Split(strings.TrimSuffix(*p.Input, "\n"), "\n")
		}
		want := strings.TrimSuffix(*p.Output, "\n")
		if strings.Contains(p.Src, "cls") || strings.Contains(p.Src, "rand") {
			continue // output depends on the platform's cls / on chance
		}
		c.Want = strings.Split(want, "\n")
		fl := checkCase(c)
		if fl != nil && fl.Kind == "output" {
			// fenced output cannot express "no trailing newline": compare modulo one final newline
			res := rec.Run(c.Src, rec.Opts{Inputs: c.Inputs})
			if strings.TrimSuffix(rec.PrintText(res.Trace), "\n") == want {
				fl = nil
			}
		}
		ctx.Rec.Case(true, p.Name, "doc-example")
		ctx.Rec.Add("documented_examples_run", 1)
		ctx.Report(t, fl)
	}
}

func TestReplay(t *testing.T) {
	path := h.ReplayPath()
	if path == "" {
		t.Skip("no replay requested")
	}
	ctx := h.Setup(t, "C13")
	var c Case
	if _, err := h.LoadReplay(path, &c); err != nil {
		t.Fatalf("cannot load replay: %v", err)
	}
	ctx.FinishReplay(t, checkCase(c))
}
