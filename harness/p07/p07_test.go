// Package p07 decides C07: formatting is canonical and idempotent.
package p07

import (
	"bytes"
	"context"
	"fmt"
	"os"
	"os/exec"
	"path/filepath"
	"strings"
	"testing"
	"time"

	"pgregory.net/rapid"
	"verif/harness/corpus"
	"verif/harness/eng"
	"verif/harness/fmtx"
	"verif/harness/gen"
	"verif/harness/h"
	"verif/harness/m"
	"verif/harness/rec"
	"verif/harness/srcmut"
)

// Case is an accepted source text and optionally a whitespace-only variant of it.
type Case struct {
	Src     string `json:"src"`
	Variant string `json:"variant,omitempty"`
	Origin  string `json:"origin"`
	CLI     bool   `json:"cli,omitempty"`
}

func checkCase(c Case) (*h.Failure, string) {
	mk := func(kind, detail string) *h.Failure {
		return &h.Failure{Kind: kind, Detail: detail, Src: c.Src, Case: c}
	}
	f1, prog, ok, crash := fmtx.Format(c.Src)
	if crash != nil {
		return &h.Failure{Kind: crash.Class, Detail: crash.Msg, Src: c.Src, Case: c, Callsite: rec.TopFrame(crash.Stack)}, ""
	}
	if !ok {
		return nil, ""
	}
	// Program.Format applied repeatedly to the same parsed program
	for i := 0; i < 2; i++ {
		again, crashAgain := fmtx.FormatAgain(prog)
		if crashAgain != nil {
			return &h.Failure{Kind: "format-again-" + crashAgain.Class, Detail: "calling Format a second time on the same parsed program crashed: " + crashAgain.Msg, Src: c.Src, Case: c, Callsite: rec.TopFrame(crashAgain.Stack)}, f1
		}
		if again != f1 {
			return mk("format-again-differs", fmt.Sprintf("calling Format again on the same parsed program gives different text\nfirst:\n%s\nagain:\n%s", f1, again)), f1
		}
	}
	f2, _, ok2, crash2 := fmtx.Format(f1)
	if crash2 != nil || !ok2 {
		return mk("reformat-failed", "the formatter's output cannot be formatted again\nformatted:\n"+f1), f1
	}
	if f2 != f1 {
		return mk("not-idempotent", fmt.Sprintf("formatting twice differs from formatting once\nonce:\n%s\ntwice:\n%s", f1, f2)), f1
	}
	if kind, detail := fmtx.Shape(f1); kind != "" {
		return mk(kind, detail+"\nformatted:\n"+f1), f1
	}
	if c.Variant != "" {
		fv, _, okv, _ := fmtx.Format(c.Variant)
		if !okv {
			_, errs, _ := rec.SafeParse(c.Variant)
			return mk("variant-rejected", "a whitespace-only variant of an accepted program is rejected: "+errs.Error()+"\nvariant:\n"+c.Variant), f1
		}
		if fv != f1 {
			return mk("not-canonical", fmt.Sprintf("two programs that differ only in optional whitespace format differently\nsource formats to:\n%s\nvariant:\n%s\nvariant formats to:\n%s", f1, c.Variant, fv)), f1
		}
	}
	if c.CLI {
		if fl := cli(c, f1); fl != nil {
			return fl, f1
		}
	}
	return nil, f1
}

// cli: `evy fmt -c` exits 0 exactly for the formatter's own output, from stdin
// and from a file, and leaves the file untouched.
func cli(c Case, formatted string) *h.Failure {
	bin := filepath.Join(os.Getenv("VERIF_BUILD"), "evy")
	if _, err := os.Stat(bin); err != nil {
		return nil
	}
	mk := func(kind, detail string) *h.Failure {
		return &h.Failure{Kind: kind, Detail: detail, Src: c.Src, Case: c}
	}
	dir, _ := os.MkdirTemp("", "verif-c07-")
	defer os.RemoveAll(dir)
	run := func(text string, viaFile bool) (int, string) {
		var cmd *exec.Cmd
		ctx, cancel := context.WithTimeout(context.Background(), 60*time.Second)
		defer cancel()
		if viaFile {
			f := filepath.Join(dir, "p.evy")
			os.WriteFile(f, []byte(text), 0o644) //nolint:errcheck
			cmd = exec.CommandContext(ctx, bin, "fmt", "-c", f)
		} else {
			cmd = exec.CommandContext(ctx, bin, "fmt", "-c")
			cmd.Stdin = strings.NewReader(text)
		}
		var buf bytes.Buffer
		cmd.Stdout, cmd.Stderr = &buf, &buf
		err := cmd.Run()
		code := 0
		if err != nil {
			code = 1
			if ee, ok := err.(*exec.ExitError); ok {
				code = ee.ExitCode()
			}
		}
		if viaFile {
			b, _ := os.ReadFile(filepath.Join(dir, "p.evy"))
			if string(b) != text {
				return -100, "file modified by fmt -c"
			}
		}
		return code, buf.String()
	}
	for _, viaFile := range []bool{false, true} {
		if code, out := run(formatted, viaFile); code != 0 {
			return mk("check-rejects-own-output", fmt.Sprintf("evy fmt -c (file=%v) exits %d on the formatter's own output: %s\nformatted:\n%s", viaFile, code, out, formatted))
		}
		if c.Src != formatted {
			if code, out := run(c.Src, viaFile); code == 0 {
				return mk("check-accepts-unformatted", fmt.Sprintf("evy fmt -c (file=%v) exits 0 on text that is not in formatted form: %s", viaFile, out))
			} else if code == -100 {
				return mk("check-modifies", "evy fmt -c modified the file")
			}
		}
	}
	return nil
}

func TestProp(t *testing.T) {
	if h.ReplayPath() != "" {
		t.Skip("replay run")
	}
	ctx := h.Setup(t, "C07")
	all := corpus.All()
	ncli := 0
	cliBudget := 60
	if ctx.Thorough() {
		cliBudget = 400
	}
	blankTail := ctx.Open("F17")
	almostBudget, nalmost := 60, 0
	if ctx.Thorough() {
		almostBudget = 600
	}
	rapid.Check(t, func(t *rapid.T) {
		mode := rapid.SampledFrom([]string{"model", "model", "corpus-variant", "corpus-variant", "model-variant", "model-variant", "almost-formatted"}).Draw(t, "mode")
		c := Case{Origin: mode}
		switch mode {
		case "almost-formatted":
			// the formatter's own output with one small whitespace deviation: `evy fmt -c` must tell it apart
			p := all[rapid.IntRange(0, len(all)-1).Draw(t, "prog")]
			f, _, ok, _ := fmtx.Format(srcmut.Window(t, p.Src, 40))
			if !ok || len(f) < 2 {
				f = "x := 1\nif x > 0\n    print x\nend\n"
			}
			lines := strings.Split(strings.TrimSuffix(f, "\n"), "\n")
			li := rapid.IntRange(0, len(lines)-1).Draw(t, "line")
			dev := rapid.SampledFrom([]string{"no-final-newline", "no-final-newline", "trailing-space", "trailing-tab", "leading-space", "double-space"}).Draw(t, "deviation")
			switch dev {
			case "no-final-newline":
				c.Src = strings.TrimSuffix(f, "\n")
			case "trailing-space":
				lines[li] += " "
			case "trailing-tab":
				lines[li] += "\t"
			case "leading-space":
				lines[li] = " " + lines[li]
			default:
				if i := strings.Index(strings.TrimLeft(lines[li], " "), " "); i > 0 && !strings.Contains(lines[li], "\"") && !strings.Contains(lines[li], "//") {
					off := len(lines[li]) - len(strings.TrimLeft(lines[li], " "))
					lines[li] = lines[li][:off+i] + " " + lines[li][off+i:]
				} else {
					lines[li] += " "
				}
			}
			if c.Src == "" {
				c.Src = strings.Join(lines, "\n") + "\n"
			}
			c.Origin = "almost-formatted:" + dev
			if nalmost < almostBudget {
				nalmost++
				c.CLI = true
				ctx.Rec.Add("cli_fmt_check_cases", 1)
			}
		case "corpus-variant":
			p := all[rapid.IntRange(0, len(all)-1).Draw(t, "prog")]
			c.Src = p.Src
			c.Variant, _ = fmtx.Relayout(t, p.Src)
			c.Origin = "corpus:" + p.Name
		default:
			cfg := gen.Default
			cfg.Shadow, cfg.EarlyExit = true, true
			cfg.ExprDepth = 1 + rapid.IntRange(0, 2).Draw(t, "exprdepth")
			cfg.BlockDepth = 1 + rapid.IntRange(0, 2).Draw(t, "blockdepth")
			cfg.MaxStmts = 4
			g := gen.New(t, cfg)
			p := g.Program()
			c.Src, _ = m.Render(p, eng.RapidLayout{T: t})
			if mode == "model-variant" {
				c.Variant, _ = fmtx.Relayout(t, c.Src)
			}
		}
		if blankTail && mode != "almost-formatted" {
			// open finding F17: a source that ends in blank lines formats to text ending in a blank line.
			// Generated sources are trimmed to avoid it (counted); its own reproducer keeps checking it.
			trim := func(s string) string {
				for strings.HasSuffix(s, "\n\n") || strings.HasSuffix(s, "\n \n") || strings.HasSuffix(s, "\n\t\n") {
					s = strings.TrimRight(s, " \t\n") + "\n"
				}
				return strings.TrimRight(s, " \t\n") + "\n"
			}
			if t2 := trim(c.Src); t2 != c.Src {
				ctx.Rec.Exclude("F17")
				c.Src = t2
			}
			if c.Variant != "" {
				c.Variant = trim(c.Variant)
			}
		}
		if ncli < cliBudget && rapid.IntRange(0, 20).Draw(t, "cli") == 0 {
			c.CLI = true
			ncli++
			ctx.Rec.Add("cli_fmt_check_cases", 1)
		}
		fl, f1 := checkCase(c)
		multi := strings.Contains(c.Src, "[\n") || strings.Contains(c.Src, "{\n")
		nontrivial := f1 != "" && (f1 != c.Src || multi || c.Variant != "" && c.Variant != c.Src)
		classes := []string{"mode:" + mode}
		if c.Variant != "" && c.Variant != c.Src {
			classes = append(classes, "variant-differs")
		}
		if f1 == c.Src {
			classes = append(classes, "already-formatted")
		}
		ctx.Rec.Case(nontrivial, c.Src+"\x00"+c.Variant, classes...)
		if nontrivial && ctx.Rec.WantSample() && len(c.Src) < 400 {
			ctx.Rec.Sample(map[string]any{"origin": c.Origin, "src": c.Src, "variant": c.Variant, "formatted": f1})
		}
		ctx.Report(t, fl)
	})
}

func TestReplay(t *testing.T) {
	path := h.ReplayPath()
	if path == "" {
		t.Skip("no replay requested")
	}
	ctx := h.Setup(t, "C07")
	var c Case
	if _, err := h.LoadReplay(path, &c); err != nil {
		t.Fatalf("cannot load replay: %v", err)
	}
	fl, _ := checkCase(c)
	ctx.FinishReplay(t, fl)
}
