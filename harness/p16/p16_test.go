// Package p16 decides C16: compiled bytecode behaves like the tree-walking evaluator.
package p16

import (
	"fmt"
	"regexp"
	"strings"
	"testing"

	"pgregory.net/rapid"
	"verif/harness/bcx"
	"verif/harness/eng"
	"verif/harness/gen"
	"verif/harness/h"
	"verif/harness/m"
	"verif/harness/rec"
)

// Case is a source text; Unsupported names the construct outside the compiler's subset, if any.
type Case struct {
	Src         string `json:"src"`
	Unsupported string `json:"unsupported,omitempty"`
}

// classes the evaluator and the VM must agree on
var sameClass = map[string]bool{"panic:bounds": true, "panic:index": true, "panic:slice": true, "panic:mapkey": true, "panic:badrepetition": true}

var (
	forVarRE = regexp.MustCompile(`(?m)^\s*for\s+(\w+)\s*:=\s*range`)
	declRE   = regexp.MustCompile(`(?m)^\s*(\w+)\s*:=`)
)

// loopVarShadows reports whether a for loop variable has the name of a variable declared elsewhere.
func loopVarShadows(src string) bool {
	declared := map[string]bool{}
	for _, mm := range declRE.FindAllStringSubmatch(src, -1) {
		declared[mm[1]] = true
	}
	for _, mm := range forVarRE.FindAllStringSubmatch(src, -1) {
		if declared[mm[1]] {
			return true
		}
	}
	return false
}

func checkCase(c Case) (*h.Failure, string) {
	tag := ""
	if loopVarShadows(c.Src) {
		tag = " loopvar-shadows-outer"
	}
	mk := func(kind, detail, callsite string) *h.Failure {
		return &h.Failure{Kind: kind, Detail: detail, Src: c.Src, Case: c, Callsite: callsite + tag}
	}
	prog, errs, crash := rec.SafeParse(c.Src)
	if crash != nil || errs != nil {
		return nil, "not-accepted"
	}
	ev, out, res := bcx.EvalGlobals(prog)
	if res.FuelOut || res.TooMuch {
		return nil, "fuel"
	}
	if res.Yields > 20000 {
		return nil, "too-expensive" // the VM has no budget of its own: only run what the evaluator finishes quickly
	}
	vm := bcx.RunVM(prog, res.Yields)
	if vm.Slow {
		return nil, "vm-slow" // inside the instruction budget but over the wall-time limit: inconclusive
	}
	if vm.Hang {
		return mk("vm-hang", fmt.Sprintf("the program ends on the evaluator after %d evaluation steps (%s) but the VM was still running after %d instructions (budget: 200000 + 2000 per evaluation step)", res.Yields, out, vm.Steps), ""), "vm-hang"
	}
	if c.Unsupported != "" {
		if vm.CompileErr == nil {
			return mk("silently-left-out", fmt.Sprintf("the program uses %s, which the compiler cannot translate, but Compile returned no error", c.Unsupported), "construct:"+c.Unsupported), "unsupported"
		}
		return nil, "unsupported-rejected"
	}
	if vm.CompileErr != nil {
		return mk("compile-error", "a program inside the compiler's supported subset was rejected: "+vm.CompileErr.Error(), ""), "compile-error"
	}
	if vm.Panic != "" {
		return mk("vm-gopanic", "the VM crashed the host: "+vm.Panic, rec.TopFrame(vm.Stack)), "vm-panic"
	}
	vmClass := bcx.VMClass(vm.RunErr)
	if out.Class == "gopanic" || out.Class == "internal" {
		return nil, "evaluator-crash" // C02's business
	}
	switch {
	case vmClass == "panic:dividebyzero":
		return nil, "vm-divide-by-zero" // allowed on the VM alone
	case out.Class == "ok" && vmClass == "ok":
		if d := bcx.DiffGlobals(ev, vm.Globals); d != "" {
			return mk("globals-differ", d, ""), "compared"
		}
		return nil, "compared"
	case out.Class == "panic:rangevalue" && vmClass == "ok":
		return mk("missing-error", "the evaluator fails with "+out.String()+", the VM completes", ""), "error"
	case sameClass[out.Class] || sameClass[vmClass] || vmClass == "ok" || out.Class == "ok":
		if out.Class != vmClass {
			return mk("outcome-differs", fmt.Sprintf("the evaluator ends with %s, the VM with %s (%v)", out, vmClass, vm.RunErr), ""), "error"
		}
		return nil, "error-agree"
	}
	return nil, "other"
}

func subsetCfg(t *rapid.T, ctx *h.Ctx) gen.Cfg {
	cfg := gen.Cfg{ExprDepth: 1 + rapid.IntRange(0, 2).Draw(t, "exprdepth"), BlockDepth: 1 + rapid.IntRange(0, 2).Draw(t, "blockdepth"), MaxStmts: 5,
		Maps: true, Loops: true, Shadow: true, NoCalls: true, NoTyped: true, NoLogic: true, NoDot: true, RiskyIndex: rapid.Bool().Draw(t, "risky")}
	// open VM findings are avoided by construction (and counted); their reproducers keep checking them
	if ctx.Open("F35") {
		cfg.NoMapStore = true
	}
	if ctx.Open("F37") {
		cfg.NoLoopVarShadow = true
	}
	return cfg
}

var unsupported = []struct {
	name  string
	lines []string
}{
	{"a typed declaration", []string{"zz:num", "zz = 1"}},
	{"a call statement", []string{"print 1"}},
	{"a function definition", []string{"func zzf", "    zzl := 1", "    zzl = zzl", "end"}},
	{"an event handler", []string{"on key", "    zzl := 1", "    zzl = zzl", "end"}},
	{"a call expression", []string{"zz := len \"abc\"", "zz = zz"}},
	{"a field access", []string{"zzm := {a:1}", "zz := zzm.a", "zz = zz"}},
	{"a field assignment", []string{"zzm := {a:1}", "zzm.a = 2"}},
	{"a type assertion", []string{"zza := [1 \"a\"][0]", "zz := zza.(num)", "zz = zz"}},
	{"and/or", []string{"zz := true and false", "zz = zz"}},
	{"an any-typed literal", []string{"zz := [1 \"a\"]", "zz = zz"}},
}

func TestProp(t *testing.T) {
	if h.ReplayPath() != "" {
		t.Skip("replay run")
	}
	ctx := h.Setup(t, "C16")
	rapid.Check(t, func(t *rapid.T) {
		cfg := subsetCfg(t, ctx)
		if cfg.NoMapStore {
			ctx.Rec.Exclude("F35")
		}
		if cfg.NoLoopVarShadow {
			ctx.Rec.Exclude("F37")
		}
		g := gen.New(t, cfg)
		p := g.Program()
		c := Case{}
		if rapid.IntRange(0, 3).Draw(t, "unsupported") == 0 {
			u := unsupported[rapid.IntRange(0, len(unsupported)-1).Draw(t, "construct")]
			c.Unsupported = u.name
			at := rapid.IntRange(0, len(p.Items)).Draw(t, "at")
			p.Items = append(p.Items[:at:at], append([]m.Item{{S: &m.Raw{Lines: u.lines}}}, p.Items[at:]...)...)
		}
		c.Src, _ = m.Render(p, eng.RapidLayout{T: t, Calm: true})
		if bcx.Leaked > 2 {
			t.Skip("too many abandoned VM runs in this process")
		}
		fl, class := checkCase(c)
		loops := strings.Contains(c.Src, "for ") || strings.Contains(c.Src, "while ")
		composite := strings.Contains(c.Src, "[") || strings.Contains(c.Src, "{")
		nontrivial := class == "compared" && loops && composite || class == "unsupported-rejected" || class == "error-agree"
		ctx.Rec.Case(nontrivial, c.Src, "result:"+class)
		if nontrivial && ctx.Rec.WantSample() && len(c.Src) < 600 {
			ctx.Rec.Sample(map[string]any{"src": c.Src, "unsupported": c.Unsupported, "result": class})
		}
		ctx.Report(t, fl)
	})
}

func TestReplay(t *testing.T) {
	path := h.ReplayPath()
	if path == "" {
		t.Skip("no replay requested")
	}
	ctx := h.Setup(t, "C16")
	var c Case
	if _, err := h.LoadReplay(path, &c); err != nil {
		t.Fatalf("cannot load replay: %v", err)
	}
	fl, _ := checkCase(c)
	ctx.FinishReplay(t, fl)
}
