package p16

import (
	"os"
	"testing"

	"verif/harness/h"
)

// TestMinimize is a development aid: VERIF_MIN=<replay file> prints a line-minimised source with the same failure kind.
func TestMinimize(t *testing.T) {
	path := os.Getenv("VERIF_MIN")
	if path == "" {
		t.Skip()
	}
	var c Case
	fl0, err := h.LoadReplay(path, &c)
	if err != nil {
		t.Fatal(err)
	}
	kind := fl0.Kind
	out := h.MinimizeLines(c.Src, func(s string) bool {
		fl, _ := checkCase(Case{Src: s, Unsupported: c.Unsupported})
		return fl != nil && fl.Kind == kind
	})
	t.Logf("minimised (%s):\n%s", kind, out)
}
