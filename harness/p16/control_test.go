package p16

import (
	"fmt"
	"strings"
	"testing"

	"pgregory.net/rapid"
	"verif/harness/bcx"
	"verif/harness/h"
)

// TestControl generates control-flow skeletons inside the compiler's subset: nested
// for / while / for-in loops and if / else chains whose conditions depend on the loop
// counters, with `break` at chosen places (before or after a nested loop, inside the
// innermost loop, in else branches). Every place that is passed folds a constant into
// the global `h`, so the final globals encode the path taken. Jumps are what the
// compiler has to patch; random expression programs seldom take a particular break.
type skel struct {
	t     *rapid.T
	sb    strings.Builder
	n     int
	loops []string // counters of the enclosing loops
	feats map[string]bool
}

func (s *skel) line(depth int, format string, a ...any) {
	s.sb.WriteString(strings.Repeat("    ", depth) + fmt.Sprintf(format, a...) + "\n")
}

func (s *skel) mark(depth int) {
	s.n++
	s.line(depth, "h = (h * 31 + %d) %% 1000003", s.n)
}

func (s *skel) cond() string {
	k := rapid.IntRange(0, 3).Draw(s.t, "k")
	if len(s.loops) > 0 && rapid.IntRange(0, 3).Draw(s.t, "oncounter") > 0 {
		c := s.loops[rapid.IntRange(0, len(s.loops)-1).Draw(s.t, "counter")]
		return fmt.Sprintf("%s %s %d", c, rapid.SampledFrom([]string{"==", ">=", "<", "!="}).Draw(s.t, "cmp"), k)
	}
	return fmt.Sprintf("h %% %d == %d", 2+k, rapid.IntRange(0, 1).Draw(s.t, "rem"))
}

func (s *skel) block(depth, budget int) {
	n := rapid.IntRange(1, 4).Draw(s.t, "nstmts")
	for i := 0; i < n; i++ {
		kind := rapid.IntRange(0, 9).Draw(s.t, "stmt")
		if budget <= 0 && kind >= 3 && kind <= 7 {
			kind = 0
		}
		switch kind {
		case 0, 1, 2:
			s.mark(depth)
		case 3: // for range
			s.n++
			v := fmt.Sprintf("i%d", s.n)
			switch rapid.IntRange(0, 4).Draw(s.t, "rangeform") {
			case 3: // a step that has no exact binary representation: both sides must count the same way
				s.line(depth, "for %s := range 0 %s %s", v, rapid.SampledFrom([]string{"1", "0.5", "0.7"}).Draw(s.t, "fstop"), rapid.SampledFrom([]string{"0.1", "0.3", "0.05"}).Draw(s.t, "fstep"))
				s.feats["fractional-step"] = true
			case 4:
				s.line(depth, "for %s := range 1 0 -%s", v, rapid.SampledFrom([]string{"0.1", "0.3", "0.7"}).Draw(s.t, "fstep"))
				s.feats["fractional-step"] = true
			case 0:
				s.line(depth, "for %s := range %d", v, rapid.IntRange(0, 4).Draw(s.t, "stop"))
			case 1:
				s.line(depth, "for %s := range 1 %d", v, rapid.IntRange(1, 5).Draw(s.t, "stop"))
			default:
				s.line(depth, "for %s := range 4 0 -%d", v, rapid.IntRange(1, 2).Draw(s.t, "step"))
			}
			s.line(depth+1, "h = h + %s", v)
			s.feats["for"] = true
			s.loops = append(s.loops, v)
			s.block(depth+1, budget-1)
			s.loops = s.loops[:len(s.loops)-1]
			s.line(depth, "end")
		case 4: // while with its own counter
			s.n++
			v := fmt.Sprintf("w%d", s.n)
			s.line(depth, "%s := 0", v)
			s.line(depth, "while %s < %d", v, rapid.IntRange(0, 4).Draw(s.t, "bound"))
			s.line(depth+1, "%s = %s + 1", v, v)
			s.feats["while"] = true
			s.loops = append(s.loops, v)
			s.block(depth+1, budget-1)
			s.loops = s.loops[:len(s.loops)-1]
			s.line(depth, "end")
		case 5: // for-in over an array or a string; the element is folded into h through a comparison
			s.n++
			v := fmt.Sprintf("e%d", s.n)
			if rapid.Bool().Draw(s.t, "overstring") {
				s.line(depth, "for %s := range \"ab日\"", v)
				s.line(depth+1, "if %s == \"b\"", v)
			} else {
				s.line(depth, "for %s := range [3 1 2]", v)
				s.line(depth+1, "if %s == 1", v)
			}
			s.mark(depth + 2)
			s.line(depth+1, "end")
			s.feats["for-in"] = true
			s.loops = append(s.loops, "h")
			s.block(depth+1, budget-1)
			s.loops = s.loops[:len(s.loops)-1]
			s.line(depth, "end")
		case 6, 7: // if / else if / else
			s.line(depth, "if %s", s.cond())
			s.block(depth+1, budget-1)
			for j := rapid.IntRange(0, 2).Draw(s.t, "elifs"); j > 0; j-- {
				s.line(depth, "else if %s", s.cond())
				s.block(depth+1, budget-1)
				s.feats["else-if"] = true
			}
			if rapid.Bool().Draw(s.t, "else") {
				s.line(depth, "else")
				s.block(depth+1, budget-1)
			}
			s.line(depth, "end")
		default: // break: guarded, or the last statement of the block
			if len(s.loops) == 0 {
				s.mark(depth)
				continue
			}
			s.feats[fmt.Sprintf("break-at-loop-depth-%d", len(s.loops))] = true
			if i == n-1 && rapid.Bool().Draw(s.t, "bare") {
				s.line(depth, "break")
				return
			}
			s.line(depth, "if %s", s.cond())
			s.mark(depth + 1)
			s.line(depth+1, "break")
			s.line(depth, "end")
		}
	}
}

func TestControl(t *testing.T) {
	if h.ReplayPath() != "" {
		t.Skip("replay run")
	}
	ctx := h.Setup(t, "C16")
	rapid.Check(t, func(t *rapid.T) {
		s := &skel{t: t, feats: map[string]bool{}}
		s.line(0, "h := 7")
		s.block(0, 4)
		s.line(0, "h = h")
		c := Case{Src: s.sb.String()}
		if bcx.Leaked > 2 {
			t.Skip("too many abandoned VM runs in this process")
		}
		fl, class := checkCase(c)
		labels := []string{"control-result:" + class}
		for k := range s.feats {
			labels = append(labels, "control:"+k)
		}
		nontrivial := class == "compared" && strings.Contains(c.Src, "break") && (s.feats["for"] || s.feats["while"] || s.feats["for-in"])
		ctx.Rec.Case(nontrivial, c.Src, labels...)
		if nontrivial && ctx.Rec.WantSample() && len(c.Src) < 700 {
			ctx.Rec.Sample(map[string]any{"src": c.Src, "result": class})
		}
		ctx.Report(t, fl)
	})
}
