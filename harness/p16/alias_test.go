package p16

import (
	"strconv"
	"strings"
	"testing"

	"pgregory.net/rapid"
	"verif/harness/bcx"
	"verif/harness/eng"
	"verif/harness/h"
	"verif/harness/m"
)

// TestAlias generates histories of copies, aliases and in-place updates inside the
// compiler's subset (no calls, no typed declarations, no field syntax): every value that
// was derived from another one (assignment, literal element, element read, slice,
// concatenation with and without an empty side, repetition, loop variable) is later
// updated in place through one of its names, and the final globals of the evaluator
// and the VM are compared. All arrays keep at least one element by construction, so
// index 0 and -1 are always valid and no guard (a call) is needed.

var (
	aNums  = m.ArrOf(m.TNum)
	aNums2 = m.ArrOf(aNums)
	aStrs  = m.ArrOf(m.TStr)
	mNums  = m.MapOf(m.TNum)
	mArrs  = m.MapOf(aNums)
	aPool  = []*m.Type{m.TNum, m.TStr, m.TBool, aNums, aNums2, aStrs, mNums, mArrs}
)

type avar struct {
	name string
	ty   *m.Type
}

type ast struct {
	t        *rapid.T
	vars     []avar
	n, lit   int
	out      []m.Stmt
	made     map[string]bool
	upd      map[string]bool
	mapStore bool
}

func (s *ast) fresh() string { s.n++; return "v" + strconv.Itoa(s.n) }

func (s *ast) of(ty *m.Type) []avar {
	var out []avar
	for _, v := range s.vars {
		if v.ty.Eq(ty) {
			out = append(out, v)
		}
	}
	return out
}

func (s *ast) pick(ty *m.Type) (*m.Var, bool) {
	vs := s.of(ty)
	if len(vs) == 0 {
		return nil, false
	}
	v := vs[rapid.IntRange(0, len(vs)-1).Draw(s.t, "var")]
	return &m.Var{Name: v.name, Ty: v.ty}, true
}

func (s *ast) newLit(ty *m.Type) m.Expr {
	s.lit++
	switch ty.K {
	case m.Num:
		return m.NumLit(float64(100 + s.lit))
	case m.Str:
		return m.StrLit("s" + strconv.Itoa(s.lit))
	case m.Bool:
		return m.BoolLit(s.lit%2 == 0)
	case m.Arr:
		n := rapid.IntRange(1, 3).Draw(s.t, "litlen")
		a := &m.ArrLit{Ty: ty}
		for i := 0; i < n; i++ {
			a.Elems = append(a.Elems, s.newLit(ty.Sub))
		}
		return a
	case m.Map:
		return &m.MapLit{Ty: ty, Keys: []string{"a", "b"}, Vals: []m.Expr{s.newLit(ty.Sub), s.newLit(ty.Sub)}}
	}
	panic("newLit")
}

func (s *ast) declare(name string, ty *m.Type, init m.Expr) {
	s.out = append(s.out, &m.Decl{Name: name, Ty: ty, Init: init})
	s.vars = append(s.vars, avar{name, ty})
}

func idx(s *ast) m.Expr {
	return m.NumLit(float64(rapid.IntRange(-1, 0).Draw(s.t, "idx")))
}

// fresh array expressions derived from v (and possibly another variable w of the same type)
func (s *ast) derived(v *m.Var) (m.Expr, string) {
	ty := v.Ty
	w, _ := s.pick(ty)
	switch rapid.IntRange(0, 9).Draw(s.t, "derive") {
	case 0:
		return &m.Slice{X: v}, "slice-all"
	case 1:
		return &m.Slice{X: v, Hi: m.NumLit(1)}, "slice-head"
	case 2:
		return &m.Slice{X: v, Lo: m.NumLit(-1)}, "slice-tail"
	case 3:
		return &m.Binary{Op: "+", L: v, R: w, Ty: ty}, "concat-vars"
	case 4:
		return &m.Binary{Op: "+", L: v, R: &m.ArrLit{Ty: ty}, Ty: ty}, "concat-empty-right"
	case 5:
		return &m.Binary{Op: "+", L: &m.ArrLit{Ty: ty}, R: v, Ty: ty}, "concat-empty-left"
	case 6:
		return &m.Binary{Op: "+", L: v, R: &m.ArrLit{Ty: ty, Elems: []m.Expr{s.newLit(ty.Sub)}}, Ty: ty}, "concat-literal"
	case 7:
		return &m.Binary{Op: "*", L: v, R: m.NumLit(1), Ty: ty}, "repeat-1"
	case 8:
		return &m.Binary{Op: "*", L: v, R: m.NumLit(2), Ty: ty}, "repeat-2"
	default:
		return &m.Binary{Op: "+", L: &m.Binary{Op: "+", L: v, R: &m.ArrLit{Ty: ty, Elems: []m.Expr{s.newLit(ty.Sub)}}, Ty: ty}, R: w, Ty: ty}, "concat-chain"
	}
}

func (s *ast) step() {
	v0 := s.vars[rapid.IntRange(0, len(s.vars)-1).Draw(s.t, "anyvar")]
	k := rapid.IntRange(0, 13).Draw(s.t, "step")
	if k >= 5 && k <= 11 && v0.ty.K != m.Arr {
		// steps about arrays: take an array variable (there is always one)
		for _, x := range s.vars {
			if x.ty.K == m.Arr {
				v0 = x
				if rapid.Bool().Draw(s.t, "thisone") {
					break
				}
			}
		}
	}
	v := &m.Var{Name: v0.name, Ty: v0.ty}
	ty := v.Ty
	switch k {
	case 0:
		s.made["decl"] = true
		s.declare(s.fresh(), ty, v)
	case 1:
		if w, ok := s.pick(ty); ok && w.Name != v.Name {
			s.made["assign"] = true
			s.out = append(s.out, &m.Assign{Target: w, Val: v})
		}
	case 2:
		s.upd["rebind"] = true
		s.out = append(s.out, &m.Assign{Target: v, Val: s.newLit(ty)})
	case 3:
		if ty.Depth() < 2 && ty.K != m.Map {
			s.made["array-literal-element"] = true
			s.declare(s.fresh(), m.ArrOf(ty), &m.ArrLit{Ty: m.ArrOf(ty), Elems: []m.Expr{v, s.newLit(ty)}})
		}
	case 4:
		if ty.K == m.Num || ty.Eq(aNums) {
			s.made["map-literal-value"] = true
			s.declare(s.fresh(), m.MapOf(ty), &m.MapLit{Ty: m.MapOf(ty), Keys: []string{"a", "o"}, Vals: []m.Expr{v, s.newLit(ty)}})
		}
	case 5: // store a variable into an element of an existing array
		if ty.K == m.Arr {
			if e, ok := s.pick(ty.Sub); ok {
				s.made["store-element"] = true
				s.upd["index-store"] = true
				s.out = append(s.out, &m.Assign{Target: &m.Index{X: v, I: idx(s), Ty: ty.Sub}, Val: e})
			}
		}
	case 6: // read an element into a new variable
		if ty.K == m.Arr {
			s.made["read-element"] = true
			s.declare(s.fresh(), ty.Sub, &m.Index{X: v, I: idx(s), Ty: ty.Sub})
		}
	case 7: // store a fresh value in place
		if ty.K == m.Arr {
			s.upd["index-store"] = true
			s.out = append(s.out, &m.Assign{Target: &m.Index{X: v, I: idx(s), Ty: ty.Sub}, Val: s.newLit(ty.Sub)})
		}
	case 8: // nested in-place store
		if ty.Eq(aNums2) {
			s.upd["nested-index-store"] = true
			s.out = append(s.out, &m.Assign{Target: &m.Index{X: &m.Index{X: v, I: idx(s), Ty: aNums}, I: idx(s), Ty: m.TNum}, Val: s.newLit(m.TNum)})
		}
	case 9, 10: // a fresh array derived from this one
		if ty.K == m.Arr {
			e, how := s.derived(v)
			s.made[how] = true
			if w, ok := s.pick(ty); ok && rapid.Bool().Draw(s.t, "intoexisting") {
				s.out = append(s.out, &m.Assign{Target: w, Val: e})
			} else {
				s.declare(s.fresh(), ty, e)
			}
		}
	case 11: // loop variable: copied out, and updated in place when it is an array
		if ty.K == m.Arr {
			s.made["loop-var"] = true
			n, e := s.fresh(), "e"+strconv.Itoa(s.n)
			ev := &m.Var{Name: e, Ty: ty.Sub}
			body := []m.Stmt{&m.Assign{Target: &m.Var{Name: n, Ty: ty.Sub}, Val: ev}}
			if ty.Sub.K == m.Arr {
				s.upd["index-store-through-loop-var"] = true
				body = append(body, &m.Assign{Target: &m.Index{X: ev, I: idx(s), Ty: ty.Sub.Sub}, Val: s.newLit(ty.Sub.Sub)})
			}
			s.declare(n, ty.Sub, s.newLit(ty.Sub))
			s.out = append(s.out, &m.ForIn{V: e, X: v, Body: body})
		}
	case 12: // growing in a loop
		if ty.K == m.Arr {
			s.made["grow-in-loop"] = true
			c := s.fresh()
			cv := &m.Var{Name: c, Ty: m.TNum}
			s.declare(c, m.TNum, m.NumLit(0))
			s.out = append(s.out, &m.While{
				Cond: &m.Binary{Op: "<", L: cv, R: m.NumLit(float64(rapid.IntRange(1, 3).Draw(s.t, "rounds"))), Ty: m.TBool},
				Body: []m.Stmt{
					&m.Assign{Target: v, Val: &m.Binary{Op: "+", L: v, R: &m.ArrLit{Ty: ty, Elems: []m.Expr{s.newLit(ty.Sub)}}, Ty: ty}},
					&m.Assign{Target: cv, Val: &m.Binary{Op: "+", L: cv, R: m.NumLit(1), Ty: m.TNum}},
				},
			})
		}
	case 13: // map entry store / overwrite (only where no open finding is in the way)
		if ty.K == m.Map && s.mapStore {
			s.upd["map-store"] = true
			key := rapid.SampledFrom([]string{"a", "b", "z"}).Draw(s.t, "key")
			s.out = append(s.out, &m.Assign{Target: &m.Index{X: v, I: m.StrLit(key), Ty: ty.Sub}, Val: s.newLit(ty.Sub)})
		} else if ty.K == m.Num {
			s.upd["arith"] = true
			s.out = append(s.out, &m.Assign{Target: v, Val: &m.Binary{Op: "+", L: v, R: m.NumLit(1), Ty: m.TNum}})
		}
	}
}

func TestAlias(t *testing.T) {
	if h.ReplayPath() != "" {
		t.Skip("replay run")
	}
	ctx := h.Setup(t, "C16")
	rapid.Check(t, func(t *rapid.T) {
		s := &ast{t: t, made: map[string]bool{}, upd: map[string]bool{}, mapStore: !ctx.Open("F35")}
		if !s.mapStore {
			ctx.Rec.Exclude("F35")
		}
		nstart := rapid.IntRange(2, 5).Draw(t, "nstart")
		for i := 0; i < nstart; i++ {
			ty := aPool[rapid.IntRange(0, len(aPool)-1).Draw(t, "type")]
			if i == 0 {
				ty = []*m.Type{aNums, aNums2, aStrs}[rapid.IntRange(0, 2).Draw(t, "arrtype")]
			}
			s.declare(s.fresh(), ty, s.newLit(ty))
		}
		nsteps := rapid.IntRange(3, 14).Draw(t, "nsteps")
		for i := 0; i < nsteps; i++ {
			s.step()
		}
		prog := &m.Program{}
		for _, x := range s.out {
			prog.Items = append(prog.Items, m.Item{S: x})
		}
		// every variable is used: a self-assignment at the end keeps the parser content
		for _, v := range s.vars {
			vv := &m.Var{Name: v.name, Ty: v.ty}
			prog.Items = append(prog.Items, m.Item{S: &m.Assign{Target: vv, Val: vv}})
		}
		c := Case{}
		c.Src, _ = m.Render(prog, eng.RapidLayout{T: t, Calm: true})
		if bcx.Leaked > 2 {
			t.Skip("too many abandoned VM runs in this process")
		}
		fl, class := checkCase(c)
		nontrivial := class == "compared" && len(s.made) > 0 && len(s.upd) > 0
		labels := []string{"alias-result:" + class}
		for k := range s.made {
			labels = append(labels, "alias-made:"+k)
		}
		for k := range s.upd {
			labels = append(labels, "alias-update:"+k)
		}
		ctx.Rec.Case(nontrivial, c.Src, labels...)
		if nontrivial && ctx.Rec.WantSample() && len(c.Src) < 500 && strings.Count(c.Src, "\n") > 6 {
			ctx.Rec.Sample(map[string]any{"src": c.Src, "result": class})
		}
		ctx.Report(t, fl)
	})
}
