package m

import (
	"math"
	"strconv"
	"strings"
)

// Layout supplies the optional layout decisions of the renderer. Pick returns
// a number in [0,n); the canonical layout always returns 0.
type Layout interface {
	Pick(label string, n int) int
}

// Canonical is the layout that always picks 0: the formatter's own style.
type Canonical struct{}

// Pick returns 0.
func (Canonical) Pick(string, int) int { return 0 }

// Stats counts layout features used in one rendering (for non-triviality rules).
type Stats struct {
	OmittedParens   int // precedence boundaries rendered without parentheses
	RedundantParens int
	TightBinary     int
	SpacedBinary    int
	Multiline       int
	Comments        int
	BlankRuns       int
	OddIndent       int
}

type renderer struct {
	l     Layout
	sb    strings.Builder
	depth int
	St    Stats

	noRedundant bool // set while rendering an assignment target
}

// Render turns a model program into Evy source text.
func Render(p *Program, l Layout) (string, Stats) {
	r := &renderer{l: l}
	for i, it := range p.Items {
		switch {
		case it.F != nil:
			r.fn(it.F)
		case it.H != nil:
			r.handler(it.H)
		default:
			r.stmt(it.S)
		}
		_ = i
	}
	s := r.sb.String()
	if r.l.Pick("final-newline", 8) == 7 && strings.HasSuffix(s, "\n") && !strings.HasSuffix(s, "\n\n") {
		s = strings.TrimSuffix(s, "\n")
	}
	return s, r.St
}

// RenderExpr renders one expression in a non-tight (statement level) context.
func RenderExpr(e Expr, l Layout) string {
	r := &renderer{l: l}
	return r.expr(e, ctxTop, 0, false)
}

func prec(op string) int {
	switch op {
	case "or":
		return 1
	case "and":
		return 2
	case "==", "!=":
		return 3
	case "<", "<=", ">", ">=":
		return 4
	case "+", "-":
		return 5
	case "*", "/", "%":
		return 6
	}
	return 0
}

const (
	precUnary   = 7
	precPostfix = 8
)

type ctx int

const (
	ctxTop   ctx = iota // statement level: spaces allowed, bare call allowed
	ctxInner            // inside ( ) or [ ]: spaces allowed
	ctxTight            // list element: no spaces
)

func exprPrec(e Expr) int {
	switch e := e.(type) {
	case *Binary:
		return prec(e.Op)
	case *Unary:
		return precUnary
	case *Lit:
		if e.Ty.K == Num && (e.N < 0 || (e.N == 0 && math.Signbit(e.N))) {
			return precUnary
		}
	case *ToAny:
		return exprPrec(e.X)
	}
	return precPostfix + 1
}

func isNegLit(e Expr) bool {
	if a, ok := e.(*ToAny); ok {
		return isNegLit(a.X)
	}
	l, ok := e.(*Lit)
	return ok && l.Ty.K == Num && (l.N < 0 || (l.N == 0 && math.Signbit(l.N)))
}

func (r *renderer) num(l *Lit) string {
	if l.Spell != "" {
		return l.Spell
	}
	n := l.N
	neg := ""
	if n < 0 || (n == 0 && math.Signbit(n)) {
		neg = "-"
		n = -n
	}
	s := strconv.FormatFloat(n, 'f', -1, 64)
	if n == math.Trunc(n) && n < 1e15 {
		switch r.l.Pick("num-spelling", 6) {
		case 1:
			s += ".0"
		case 2:
			s = "0" + s
		case 3:
			s += "."
		case 4:
			s += ".00"
		}
	} else if strings.Contains(s, ".") && r.l.Pick("num-spelling-frac", 4) == 1 {
		s += "0"
	}
	return neg + s
}

func (r *renderer) str(s string) string {
	// alternative escape spellings for a few characters
	if r.l.Pick("string-escapes", 5) != 1 {
		return Quote(s)
	}
	var sb strings.Builder
	sb.WriteByte('"')
	for _, c := range s {
		switch {
		case c == '"':
			sb.WriteString(`\"`)
		case c == '\\':
			sb.WriteString(`\\`)
		case c == '\n':
			sb.WriteString(`\n`)
		case c == '\t':
			sb.WriteString(`\t`)
		case c == 'a':
			sb.WriteString(`\x61`)
		case c == 'ä':
			sb.WriteString(`ä`)
		default:
			sb.WriteRune(c)
		}
	}
	sb.WriteByte('"')
	return sb.String()
}

// expr renders e. minPrec is the binding power required by the context;
// rightOperand tells that e is the right operand of a left-associative operator.
func (r *renderer) expr(e Expr, c ctx, minPrec int, rightOperand bool) string {
	for {
		a, ok := e.(*ToAny)
		if !ok {
			break
		}
		e = a.X
	}
	p := exprPrec(e)
	need := p < minPrec || (rightOperand && p == minPrec && p <= 6) || (rightOperand && isNegLit(e)) || (minPrec == precUnary && isNegLit(e))
	if b, ok := e.(*Binary); ok && c == ctxTight && (b.Op == "and" || b.Op == "or") {
		need = true
	}
	if _, ok := e.(*Binary); ok && !need && minPrec > 0 {
		r.St.OmittedParens++
	}
	if need {
		return "(" + r.pad() + r.bare(e, ctxInner) + r.pad() + ")"
	}
	if !r.noRedundant && (c != ctxTop || minPrec > 0) {
		if _, isCall := e.(*Call); !isCall && r.l.Pick("redundant-parens", 12) == 11 {
			r.St.RedundantParens++
			return "(" + r.pad() + r.bare(e, ctxInner) + r.pad() + ")"
		}
	}
	return r.bare(e, c)
}

func (r *renderer) pad() string {
	if r.l.Pick("paren-pad", 6) == 5 {
		return " "
	}
	return ""
}

func (r *renderer) opSpacing(op string, c ctx) (string, string) {
	word := op == "and" || op == "or"
	if c == ctxTight {
		r.St.TightBinary++
		return "", ""
	}
	switch r.l.Pick("op-spacing", 7) {
	case 0, 1:
		r.St.SpacedBinary++
		return " ", " "
	case 2:
		if word {
			return " ", " "
		}
		r.St.TightBinary++
		return "", ""
	case 3:
		return "  ", "  "
	case 4:
		return "\t", " "
	case 5:
		if word {
			return " ", " "
		}
		return "", " "
	default:
		if word {
			return " ", " "
		}
		return " ", ""
	}
}

func (r *renderer) bare(e Expr, c ctx) string {
	switch e := e.(type) {
	case *ToAny:
		return r.bare(e.X, c)
	case *Lit:
		switch e.Ty.K {
		case Num:
			return r.num(e)
		case Str:
			return r.str(e.S)
		default:
			if e.B {
				return "true"
			}
			return "false"
		}
	case *Var:
		return e.Name
	case *ArrLit:
		return r.list("[", "]", len(e.Elems), func(i int) string { return r.expr(e.Elems[i], ctxTight, 0, false) })
	case *MapLit:
		return r.list("{", "}", len(e.Keys), func(i int) string {
			return e.Keys[i] + ":" + r.expr(e.Vals[i], ctxTight, 0, false)
		})
	case *Unary:
		return e.Op + r.expr(e.X, c, precUnary, false)
	case *Binary:
		p := prec(e.Op)
		l := r.expr(e.L, c, p, false)
		rt := r.expr(e.R, c, p, true)
		a, b := r.opSpacing(e.Op, c)
		if e.Op == "-" && b == "" && strings.HasPrefix(rt, "-") {
			b = " " // never produce "--"
			if c == ctxTight {
				rt = "(" + rt + ")"
				b = ""
			}
		}
		if e.Op == "/" && b == "" && strings.HasPrefix(rt, "/") {
			b = " "
		}
		return l + a + e.Op + b + rt
	case *Index:
		return r.expr(e.X, c, precPostfix, false) + "[" + r.pad() + r.expr(e.I, ctxInner, 0, false) + r.pad() + "]"
	case *Slice:
		lo, hi := "", ""
		if e.Lo != nil {
			lo = r.expr(e.Lo, ctxInner, 0, false)
		}
		if e.Hi != nil {
			hi = r.expr(e.Hi, ctxInner, 0, false)
		}
		return r.expr(e.X, c, precPostfix, false) + "[" + r.pad() + lo + r.pad() + ":" + r.pad() + hi + r.pad() + "]"
	case *Dot:
		return r.expr(e.X, c, precPostfix, false) + "." + e.Key
	case *Group:
		if c, ok := e.X.(*Call); ok {
			return "(" + r.pad() + r.call(c) + r.pad() + ")"
		}
		return "(" + r.pad() + r.bare(e.X, ctxInner) + r.pad() + ")"
	case *Assert:
		return r.expr(e.X, c, precPostfix, false) + ".(" + e.Ty.String() + ")"
	case *Call:
		return "(" + r.pad() + r.call(e) + r.pad() + ")"
	}
	panic("render: unknown expression")
}

func (r *renderer) call(c *Call) string {
	parts := []string{c.Fn}
	for _, a := range c.Args {
		parts = append(parts, r.expr(a, ctxTight, 0, false))
	}
	sep := " "
	if r.l.Pick("arg-sep", 8) == 7 {
		sep = "  "
	}
	return strings.Join(parts, sep)
}

func (r *renderer) list(open, close string, n int, el func(int) string) string {
	if n == 0 {
		switch r.l.Pick("empty-pad", 10) {
		case 7:
			return open + " " + close
		case 8: // an empty literal over two lines, holding nothing but a comment
			r.St.Comments++
			return open + " // nothing yet\n" + strings.Repeat("    ", r.depth) + close
		case 9:
			r.St.Comments++
			return open + "\n" + strings.Repeat("    ", r.depth+1) + "// nothing yet\n" + strings.Repeat("    ", r.depth) + close
		}
		return open + close
	}
	multi := r.l.Pick("multiline", 10) == 9
	var sb strings.Builder
	sb.WriteString(open)
	if multi {
		r.St.Multiline++
		ind := strings.Repeat("    ", r.depth+1)
		if r.l.Pick("multiline-comment", 4) == 3 {
			sb.WriteString(" // c")
			r.St.Comments++
		}
		sb.WriteString("\n")
		for i := 0; i < n; i++ {
			sb.WriteString(ind + el(i))
			if i+1 < n && r.l.Pick("multiline-join", 3) == 2 {
				i++
				sb.WriteString(" " + el(i))
			}
			if r.l.Pick("multiline-comment", 4) == 3 {
				sb.WriteString(" // c" + strconv.Itoa(i))
				r.St.Comments++
			}
			sb.WriteString("\n")
			switch r.l.Pick("multiline-blank", 12) {
			case 7, 8:
				sb.WriteString("\n")
			case 9: // a run of blank lines, which the formatter squeezes
				sb.WriteString("\n\n\n")
				r.St.BlankRuns++
			case 10: // a comment line of its own followed by blank lines
				sb.WriteString(ind + "// own line\n\n\n")
				r.St.Comments++
				r.St.BlankRuns++
			case 11:
				sb.WriteString(ind + "// own line  \n")
				r.St.Comments++
			}
		}
		sb.WriteString(strings.Repeat("    ", r.depth) + close)
		return sb.String()
	}
	pad := r.pad()
	sb.WriteString(pad)
	for i := 0; i < n; i++ {
		if i > 0 {
			sb.WriteString(" ")
			if r.l.Pick("elem-sep", 10) == 9 {
				sb.WriteString(" ")
			}
		}
		sb.WriteString(el(i))
	}
	sb.WriteString(pad + close)
	return sb.String()
}

// top renders an expression in statement position (after :=, =, return, if, while).
func (r *renderer) top(e Expr) string {
	if a, ok := e.(*ToAny); ok {
		e = a.X
	}
	if c, ok := e.(*Call); ok {
		if len(c.Args) > 0 && r.l.Pick("bare-call", 3) != 2 {
			return r.call(c) // func_call as toplevel_expr
		}
		return "(" + r.call(c) + ")"
	}
	return r.expr(e, ctxTop, 0, false)
}

func (r *renderer) line(s string) {
	ind := strings.Repeat("    ", r.depth)
	switch r.l.Pick("indent", 10) {
	case 6:
		ind = strings.Repeat("\t", r.depth)
		r.St.OddIndent++
	case 7:
		ind = ""
		r.St.OddIndent++
	case 8:
		ind = strings.Repeat("  ", r.depth+1)
		r.St.OddIndent++
	case 9:
		ind = " \t " + ind
		r.St.OddIndent++
	}
	r.sb.WriteString(ind + s)
	switch r.l.Pick("line-end", 12) {
	case 7:
		r.sb.WriteString(" // note")
		r.St.Comments++
	case 8:
		r.sb.WriteString("  ")
	case 9:
		r.sb.WriteString("// x")
		r.St.Comments++
	case 10: // a comment followed by blanks
		r.sb.WriteString(" // trailing blanks  ")
		r.St.Comments++
	case 11:
		r.sb.WriteString("\t//\ttabs \t")
		r.St.Comments++
	}
	r.sb.WriteString("\n")
	switch r.l.Pick("after-line", 12) {
	case 9:
		r.sb.WriteString("\n")
		r.St.BlankRuns++
	case 10:
		r.sb.WriteString("\n\n\n")
		r.St.BlankRuns++
	case 11:
		r.sb.WriteString(strings.Repeat("    ", r.depth) + "// standalone comment\n")
		r.St.Comments++
	}
}

func (r *renderer) block(body []Stmt) {
	r.depth++
	for _, s := range body {
		r.stmt(s)
	}
	r.depth--
}

func (r *renderer) sp() string {
	if r.l.Pick("stmt-space", 8) == 7 {
		return "  "
	}
	return " "
}

func (r *renderer) stmt(s Stmt) {
	switch s := s.(type) {
	case *Blank:
		if s.Comment != "" {
			r.line("// " + s.Comment)
		} else {
			r.sb.WriteString("\n")
		}
	case *Raw:
		for _, l := range s.Lines {
			r.sb.WriteString(strings.Repeat("    ", r.depth) + l + "\n")
		}
	case *Decl:
		if s.Typed {
			r.line(s.Name + ":" + s.Ty.String())
		} else {
			r.line(s.Name + r.sp() + ":=" + r.sp() + r.top(s.Init))
		}
	case *Assign:
		r.noRedundant = true
		tgt := r.bare(s.Target, ctxTop)
		r.noRedundant = false
		r.line(tgt + r.sp() + "=" + r.sp() + r.top(s.Val))
	case *CallStmt:
		r.line(r.call(s.C))
	case *If:
		for i, c := range s.Conds {
			kw := "if"
			if i > 0 {
				kw = "else" + r.sp() + "if"
			}
			r.line(kw + r.sp() + r.top(c))
			r.block(s.Blocks[i])
		}
		if s.Else != nil {
			r.line("else")
			r.block(s.Else)
		}
		r.line("end")
	case *While:
		r.line("while" + r.sp() + r.top(s.Cond))
		r.block(s.Body)
		r.line("end")
	case *ForNum:
		h := "for" + r.sp()
		if s.V != "" {
			h += s.V + r.sp() + ":=" + r.sp()
		}
		h += "range"
		for _, a := range []Expr{s.Start, s.Stop, s.Step} {
			if a != nil {
				h += " " + r.expr(a, ctxTight, 0, false)
			}
		}
		r.line(h)
		r.block(s.Body)
		r.line("end")
	case *ForIn:
		h := "for" + r.sp()
		if s.V != "" {
			h += s.V + r.sp() + ":=" + r.sp()
		}
		h += "range " + r.expr(s.X, ctxTight, 0, false)
		r.line(h)
		r.block(s.Body)
		r.line("end")
	case *Break:
		r.line("break")
	case *Return:
		if s.Val == nil {
			r.line("return")
		} else {
			r.line("return" + r.sp() + r.top(s.Val))
		}
	default:
		panic("render: unknown statement")
	}
}

func (r *renderer) params(ps []Param, variadic bool) string {
	s := ""
	for _, p := range ps {
		s += " " + p.Name + ":" + p.Ty.String()
	}
	if variadic {
		s += "..."
	}
	return s
}

func (r *renderer) fn(f *Func) {
	h := "func " + f.Name
	if f.Ret != nil && f.Ret.K != None {
		h += ":" + f.Ret.String()
	}
	h += r.params(f.Params, f.Variadic)
	r.line(h)
	r.block(f.Body)
	r.line("end")
}

func (r *renderer) handler(h *Handler) {
	r.line("on " + h.Event + r.params(h.Params, false))
	r.block(h.Body)
	r.line("end")
}
