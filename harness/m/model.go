// Package m is the harness's own model of Evy programs: types, an AST, a source
// renderer with layout choices, and a reference interpreter written from
// docs/spec.md and docs/builtins.md. It shares no code with the repository.
package m

import "strings"

// Kind is the kind of a model type.
type Kind int

// The kinds of model types.
const (
	Num Kind = iota
	Str
	Bool
	Any
	Arr
	Map
	None
)

// Type is a model type.
type Type struct {
	K   Kind
	Sub *Type
}

// Interned basic types.
var (
	TNum  = &Type{K: Num}
	TStr  = &Type{K: Str}
	TBool = &Type{K: Bool}
	TAny  = &Type{K: Any}
	TNone = &Type{K: None}
)

// ArrOf returns the array type with element type t.
func ArrOf(t *Type) *Type { return &Type{K: Arr, Sub: t} }

// MapOf returns the map type with value type t.
func MapOf(t *Type) *Type { return &Type{K: Map, Sub: t} }

func (t *Type) String() string {
	switch t.K {
	case Num:
		return "num"
	case Str:
		return "string"
	case Bool:
		return "bool"
	case Any:
		return "any"
	case Arr:
		return "[]" + t.Sub.String()
	case Map:
		return "{}" + t.Sub.String()
	}
	return "none"
}

// Eq reports structural equality.
func (t *Type) Eq(u *Type) bool {
	for t != nil && u != nil {
		if t.K != u.K {
			return false
		}
		t, u = t.Sub, u.Sub
	}
	return t == nil && u == nil
}

// Basic reports whether t is num, string or bool.
func (t *Type) Basic() bool { return t.K == Num || t.K == Str || t.K == Bool }

// Composite reports whether t is an array or map type.
func (t *Type) Composite() bool { return t.K == Arr || t.K == Map }

// Depth is the nesting depth of composite constructors.
func (t *Type) Depth() int {
	d := 0
	for ; t.Sub != nil; t = t.Sub {
		d++
	}
	return d
}

// ---- expressions ----

// Expr is a model expression. Every expression knows its static type.
type Expr interface{ T() *Type }

// Lit is a num, string or bool literal. Spell optionally fixes the source spelling.
type Lit struct {
	Ty    *Type
	N     float64
	S     string
	B     bool
	Spell string
}

// ArrLit is an array literal of static type Ty (elements already have type Ty.Sub).
type ArrLit struct {
	Ty    *Type
	Elems []Expr
}

// MapLit is a map literal of static type Ty.
type MapLit struct {
	Ty   *Type
	Keys []string
	Vals []Expr
}

// Var is a variable reference.
type Var struct {
	Name string
	Ty   *Type
}

// Unary is -x or !x.
type Unary struct {
	Op string
	X  Expr
}

// Binary is a binary operation.
type Binary struct {
	Op   string
	L, R Expr
	Ty   *Type
}

// Index is x[i] on arrays, strings and maps.
type Index struct {
	X, I Expr
	Ty   *Type
}

// Slice is x[lo:hi]; Lo and Hi may be nil.
type Slice struct {
	X, Lo, Hi Expr
}

// Dot is x.key.
type Dot struct {
	X   Expr
	Key string
	Ty  *Type
}

// Group is an explicit parenthesised expression.
type Group struct{ X Expr }

// Assert is x.(Ty) for x of type any.
type Assert struct {
	X  Expr
	Ty *Type
}

// Call calls a built-in or user function.
type Call struct {
	Fn   string
	Args []Expr
	Ty   *Type // result type, TNone for procedures
}

// ToAny marks the implicit conversion of a non-any value where `any` is required.
type ToAny struct{ X Expr }

func (e *Lit) T() *Type    { return e.Ty }
func (e *ArrLit) T() *Type { return e.Ty }
func (e *MapLit) T() *Type { return e.Ty }
func (e *Var) T() *Type    { return e.Ty }
func (e *Unary) T() *Type  { return e.X.T() }
func (e *Binary) T() *Type { return e.Ty }
func (e *Index) T() *Type  { return e.Ty }
func (e *Slice) T() *Type  { return e.X.T() }
func (e *Dot) T() *Type    { return e.Ty }
func (e *Group) T() *Type  { return e.X.T() }
func (e *Assert) T() *Type { return e.Ty }
func (e *Call) T() *Type   { return e.Ty }
func (e *ToAny) T() *Type  { return TAny }

// NumLit, StrLit, BoolLit build literals.
func NumLit(n float64) *Lit { return &Lit{Ty: TNum, N: n} }
func StrLit(s string) *Lit  { return &Lit{Ty: TStr, S: s} }
func BoolLit(b bool) *Lit   { return &Lit{Ty: TBool, B: b} }

// AsAny wraps e for an any context unless it is already of type any.
func AsAny(e Expr) Expr {
	if e.T().K == Any {
		return e
	}
	return &ToAny{X: e}
}

// ---- statements ----

// Stmt is a model statement.
type Stmt interface{ stmt() }

// Decl is `name := init` (Typed false) or `name:Ty` (Typed true, Init nil).
type Decl struct {
	Name    string
	Ty      *Type
	Init    Expr
	Typed   bool
	Comment string
}

// Assign is `target = val`; Target is a Var, Index or Dot.
type Assign struct {
	Target  Expr
	Val     Expr
	Comment string
}

// CallStmt is a call used as a statement.
type CallStmt struct {
	C       *Call
	Comment string
}

// If is if / else if / else.
type If struct {
	Conds  []Expr
	Blocks [][]Stmt
	Else   []Stmt // nil if absent
}

// While is a while loop.
type While struct {
	Cond Expr
	Body []Stmt
}

// ForNum is `for v := range start stop step` (Start/Step may be nil, V may be "").
type ForNum struct {
	V                 string
	Start, Stop, Step Expr
	Body              []Stmt
}

// ForIn is `for v := range x` over an array, string or map (V may be "").
type ForIn struct {
	V    string
	X    Expr
	Body []Stmt
}

// Break is `break`.
type Break struct{}

// Return is `return [val]`.
type Return struct{ Val Expr }

// Blank is an empty line or a comment-only line.
type Blank struct{ Comment string }

// Raw is source text inserted verbatim (one or more lines, indented with the
// block it is in). It is used to place rule-breaking edits; it cannot be interpreted.
type Raw struct{ Lines []string }

func (*Decl) stmt()     {}
func (*Assign) stmt()   {}
func (*CallStmt) stmt() {}
func (*If) stmt()       {}
func (*While) stmt()    {}
func (*ForNum) stmt()   {}
func (*ForIn) stmt()    {}
func (*Break) stmt()    {}
func (*Return) stmt()   {}
func (*Blank) stmt()    {}
func (*Raw) stmt()      {}

// Param is a function or handler parameter.
type Param struct {
	Name string
	Ty   *Type
}

// Func is a user function definition.
type Func struct {
	Name     string
	Params   []Param
	Variadic bool // single param, declared `name:Ty...`
	Ret      *Type
	Body     []Stmt
}

// Handler is an event handler definition.
type Handler struct {
	Event  string
	Params []Param // names may be "_"; empty = no params declared
	Body   []Stmt
}

// Item is one top-level item of a program: exactly one field is set.
type Item struct {
	S Stmt
	F *Func
	H *Handler
}

// Program is a model program: top-level items in source order.
type Program struct {
	Items []Item
}

// Funcs returns the function table.
func (p *Program) Funcs() map[string]*Func {
	fs := map[string]*Func{}
	for _, it := range p.Items {
		if it.F != nil {
			fs[it.F.Name] = it.F
		}
	}
	return fs
}

// Handlers returns the handler table.
func (p *Program) Handlers() map[string]*Handler {
	hs := map[string]*Handler{}
	for _, it := range p.Items {
		if it.H != nil {
			hs[it.H.Event] = it.H
		}
	}
	return hs
}

// IsIdent reports whether s can be written as a bare map key / field name.
func IsIdent(s string) bool {
	if s == "" {
		return false
	}
	for i, r := range s {
		letter := r == '_' || (r >= 'a' && r <= 'z') || (r >= 'A' && r <= 'Z')
		digit := r >= '0' && r <= '9'
		if !(letter || (i > 0 && digit)) {
			return false
		}
	}
	return true
}

// Quote renders a string literal using only escapes documented in the spec.
func Quote(s string) string {
	var sb strings.Builder
	sb.WriteByte('"')
	for _, r := range s {
		switch r {
		case '"':
			sb.WriteString(`\"`)
		case '\\':
			sb.WriteString(`\\`)
		case '\n':
			sb.WriteString(`\n`)
		case '\t':
			sb.WriteString(`\t`)
		default:
			sb.WriteRune(r)
		}
	}
	sb.WriteByte('"')
	return sb.String()
}
