package m

import (
	"fmt"
	"math"
	"regexp"
	"strconv"
	"strings"
	"time"
)

// Value is a run-time value of the reference interpreter: float64, string,
// bool, *ArrV, *MapV or *AnyV.
type Value interface{}

// ArrV is an array object (reference semantics).
type ArrV struct{ E []Value }

// MapV is an insertion-ordered dictionary object (reference semantics).
type MapV struct {
	Keys []string
	M    map[string]Value
}

// AnyV is a value held in an `any`: the concrete dynamic type and the value.
type AnyV struct {
	T *Type
	V Value
}

// Outcome is how a reference run ended.
type Outcome struct {
	Class string // ok, panic:<kind>, exit:<n>, test, unspecified, fuel
	Msg   string
}

type evyPanic struct{ o Outcome }

// Interp is the reference interpreter state.
type Interp struct {
	Prog     *Program
	Log      []string // effects in the format of rec.Platform
	Inputs   []string
	inPos    int
	Steps    int
	MaxSteps int
	funcs    map[string]*Func
	handlers map[string]*Handler
	global   *env
	depth    int
	Tests    int
	Failed   int
	FailFast bool
	fmtDepth int
	// AllowNonFinite lets arithmetic produce NaN and infinities (IEEE-754) instead
	// of declining; formatting a non-finite number stays unspecified.
	AllowNonFinite bool
	// Calls counts user function calls and loop iterations (for yield-density checks).
	Calls, Iterations int
}

type env struct {
	vars  map[string]Value
	outer *env
}

func newEnv(outer *env) *env { return &env{vars: map[string]Value{}, outer: outer} }

func (e *env) lookup(name string) (*env, bool) {
	for s := e; s != nil; s = s.outer {
		if _, ok := s.vars[name]; ok {
			return s, true
		}
	}
	return nil, false
}

func (e *env) get(name string) Value {
	s, ok := e.lookup(name)
	if !ok {
		panic("model error: unknown variable " + name)
	}
	return s.vars[name]
}

func (e *env) set(name string, v Value) {
	s, ok := e.lookup(name)
	if !ok {
		panic("model error: assignment to unknown variable " + name)
	}
	s.vars[name] = v
}

// NewInterp prepares a reference run of p.
func NewInterp(p *Program, inputs []string) *Interp {
	in := &Interp{Prog: p, Inputs: inputs, MaxSteps: 200000, funcs: p.Funcs(), handlers: p.Handlers()}
	in.global = newEnv(nil)
	in.global.vars["err"] = false
	in.global.vars["errmsg"] = ""
	in.global.vars["pi"] = math.Pi
	return in
}

func (in *Interp) fail(class, msg string) {
	panic(evyPanic{Outcome{Class: class, Msg: msg}})
}

// Unspecified aborts the reference run: the documents do not fix the behaviour.
func (in *Interp) unspecified(why string) { in.fail("unspecified", why) }

func (in *Interp) catch(f func()) (out Outcome) {
	defer func() {
		if r := recover(); r != nil {
			if p, ok := r.(evyPanic); ok {
				out = p.o
				return
			}
			panic(r)
		}
	}()
	f()
	return Outcome{Class: "ok"}
}

// Run executes the top-level code and returns the outcome. The test summary is
// appended to the log as the evaluator does after the run.
func (in *Interp) Run() Outcome {
	out := in.catch(func() {
		for _, it := range in.Prog.Items {
			if it.S == nil {
				continue
			}
			c, _ := in.exec(it.S, in.global)
			if c != ctlNone {
				panic("model error: break/return at top level")
			}
		}
	})
	in.summary()
	if out.Class == "ok" && in.Failed > 0 {
		out = Outcome{Class: "test"}
	}
	return out
}

func (in *Interp) summary() {
	if in.Tests == 0 {
		return
	}
	plural := func(n int) string {
		if n == 1 {
			return ""
		}
		return "s"
	}
	ok := in.Tests - in.Failed
	if in.Failed > 0 {
		in.effect("print:❌ " + strconv.Itoa(in.Failed) + " failed test" + plural(in.Failed) + "\n✔️ " + strconv.Itoa(ok) + " passed test" + plural(ok) + "\n")
	} else {
		in.effect("print:✅ " + strconv.Itoa(ok) + " passed test" + plural(ok) + "\n")
	}
}

// Event runs the handler for an event with the given payload (float64/string values).
func (in *Interp) Event(name string, payload []Value) Outcome {
	h := in.handlers[name]
	if h == nil {
		return Outcome{Class: "ok"}
	}
	return in.catch(func() {
		sc := newEnv(in.global)
		for i, p := range h.Params {
			if p.Name != "_" {
				sc.vars[p.Name] = payload[i]
			}
		}
		in.block(h.Body, sc, false)
	})
}

func (in *Interp) effect(s string) {
	in.Log = append(in.Log, s)
	if len(in.Log) > 50000 {
		in.fail("fuel", "too many effects")
	}
}

func (in *Interp) step() {
	in.Steps++
	if in.Steps > in.MaxSteps {
		in.fail("fuel", "step budget exceeded")
	}
}

type ctl int

const (
	ctlNone ctl = iota
	ctlBreak
	ctlReturn
)

func (in *Interp) block(body []Stmt, sc *env, fresh bool) (ctl, Value) {
	if fresh {
		sc = newEnv(sc)
	}
	for _, s := range body {
		if c, v := in.exec(s, sc); c != ctlNone {
			return c, v
		}
	}
	return ctlNone, nil
}

// Zero returns the zero value of a type.
func Zero(t *Type) Value {
	switch t.K {
	case Num:
		return 0.0
	case Str:
		return ""
	case Bool:
		return false
	case Any:
		return &AnyV{T: TBool, V: false}
	case Arr:
		return &ArrV{}
	case Map:
		return &MapV{M: map[string]Value{}}
	}
	panic("model error: zero of none")
}

func (in *Interp) exec(s Stmt, sc *env) (ctl, Value) {
	in.step()
	switch s := s.(type) {
	case *Blank:
	case *Decl:
		if s.Typed {
			sc.vars[s.Name] = Zero(s.Ty)
		} else {
			sc.vars[s.Name] = in.eval(s.Init, sc)
		}
	case *Assign:
		v := in.eval(s.Val, sc)
		switch t := s.Target.(type) {
		case *Var:
			sc.set(t.Name, v)
		case *Index:
			x := in.eval(t.X, sc)
			i := in.eval(t.I, sc)
			switch x := x.(type) {
			case *ArrV:
				k := in.index(i.(float64), len(x.E), false)
				x.E[k] = v
			case *MapV:
				x.put(i.(string), v)
			default:
				panic("model error: index assignment on non-container")
			}
		case *Dot:
			x := in.eval(t.X, sc).(*MapV)
			x.put(t.Key, v)
		default:
			panic("model error: bad assignment target")
		}
	case *CallStmt:
		in.call(s.C, sc)
	case *If:
		for i, c := range s.Conds {
			csc := newEnv(sc)
			if in.eval(c, csc).(bool) {
				return in.block(s.Blocks[i], csc, false)
			}
		}
		if s.Else != nil {
			return in.block(s.Else, sc, true)
		}
	case *While:
		for {
			csc := newEnv(sc)
			if !in.eval(s.Cond, csc).(bool) {
				return ctlNone, nil
			}
			in.Iterations++
			c, v := in.block(s.Body, csc, false)
			if c == ctlBreak {
				return ctlNone, nil
			}
			if c == ctlReturn {
				return c, v
			}
			in.step()
		}
	case *ForNum:
		start, step := 0.0, 1.0
		if s.Start != nil {
			start = in.eval(s.Start, sc).(float64)
		}
		stop := in.eval(s.Stop, sc).(float64)
		if s.Step != nil {
			step = in.eval(s.Step, sc).(float64)
		}
		if step == 0 {
			in.fail("panic:rangevalue", "step 0")
		}
		if math.IsNaN(start) || math.IsNaN(stop) || math.IsNaN(step) || math.IsInf(start, 0) || math.IsInf(step, 0) {
			in.unspecified("non-finite range")
		}
		lsc := newEnv(sc)
		acc := start
		for i := 0; ; i++ {
			cur := start + float64(i)*step
			if acc != cur {
				// the documents do not fix whether steps are accumulated or multiplied;
				// only assert where both agree exactly
				in.unspecified("range accumulation differs from multiplication")
			}
			acc += step
			if (step > 0 && cur >= stop) || (step < 0 && cur <= stop) {
				break
			}
			if s.V != "" {
				lsc.vars[s.V] = cur
			}
			in.Iterations++
			c, v := in.block(s.Body, lsc, true)
			if c == ctlBreak {
				break
			}
			if c == ctlReturn {
				return c, v
			}
			in.step()
		}
	case *ForIn:
		x := in.eval(s.X, sc)
		lsc := newEnv(sc)
		run := func(v Value) (bool, ctl, Value) {
			if s.V != "" {
				lsc.vars[s.V] = v
			}
			in.Iterations++
			c, rv := in.block(s.Body, lsc, true)
			in.step()
			if c == ctlBreak {
				return true, ctlNone, nil
			}
			if c == ctlReturn {
				return true, c, rv
			}
			return false, ctlNone, nil
		}
		switch x := x.(type) {
		case *ArrV:
			for i := 0; i < len(x.E); i++ { // length re-read: the documents only say "all elements in order"
				if stop, c, v := run(x.E[i]); stop {
					return c, v
				}
			}
		case string:
			for _, r := range []rune(x) {
				if stop, c, v := run(string(r)); stop {
					return c, v
				}
			}
		case *MapV:
			keys := append([]string(nil), x.Keys...)
			for _, k := range keys {
				if _, ok := x.M[k]; !ok {
					continue
				}
				if stop, c, v := run(k); stop {
					return c, v
				}
			}
		default:
			panic("model error: range over non-iterable")
		}
	case *Break:
		return ctlBreak, nil
	case *Return:
		if s.Val == nil {
			return ctlReturn, nil
		}
		return ctlReturn, in.eval(s.Val, sc)
	default:
		panic("model error: unknown statement")
	}
	return ctlNone, nil
}

func (m *MapV) put(k string, v Value) {
	if _, ok := m.M[k]; !ok {
		m.Keys = append(m.Keys, k)
	}
	m.M[k] = v
}

func (m *MapV) del(k string) {
	if _, ok := m.M[k]; !ok {
		return
	}
	delete(m.M, k)
	for i, kk := range m.Keys {
		if kk == k {
			m.Keys = append(m.Keys[:i:i], m.Keys[i+1:]...)
			break
		}
	}
}

// index normalises an index for a container of length n. slice allows n itself.
func (in *Interp) index(f float64, n int, slice bool) int {
	if math.IsNaN(f) || math.IsInf(f, 0) || f != math.Trunc(f) {
		in.fail("panic:index", fmt.Sprint(f))
	}
	if math.Abs(f) >= 9.2e18 {
		in.fail("panic:index|panic:bounds", fmt.Sprint(f)) // documents only promise a panic
	}
	i := int(f)
	limit := n - 1
	if slice {
		limit = n
	}
	if i < -n || i > limit {
		in.fail("panic:bounds", strconv.Itoa(i))
	}
	if i < 0 {
		i += n
	}
	return i
}

func (in *Interp) bounds(lo, hi Value, n int) (int, int) {
	a, b := 0, n
	if lo != nil {
		a = in.index(lo.(float64), n, true)
	}
	if hi != nil {
		b = in.index(hi.(float64), n, true)
	}
	if a > b {
		in.fail("panic:slice", fmt.Sprintf("%d > %d", a, b))
	}
	return a, b
}

func finite(in *Interp, f float64, what string) float64 {
	if in.AllowNonFinite && what != "formatting" {
		return f
	}
	if math.IsNaN(f) || math.IsInf(f, 0) {
		in.unspecified("non-finite result of " + what)
	}
	return f
}

func (in *Interp) eval(e Expr, sc *env) Value {
	in.step()
	switch e := e.(type) {
	case *Lit:
		switch e.Ty.K {
		case Num:
			return e.N
		case Str:
			return e.S
		default:
			return e.B
		}
	case *Var:
		return sc.get(e.Name)
	case *ToAny:
		v := in.eval(e.X, sc)
		if _, ok := v.(*AnyV); ok {
			panic("model error: nested any")
		}
		return &AnyV{T: e.X.T(), V: v}
	case *Group:
		return in.eval(e.X, sc)
	case *ArrLit:
		a := &ArrV{E: make([]Value, 0, len(e.Elems))}
		for _, el := range e.Elems {
			a.E = append(a.E, in.eval(el, sc))
		}
		return a
	case *MapLit:
		mv := &MapV{M: map[string]Value{}}
		for i, k := range e.Keys {
			mv.put(k, in.eval(e.Vals[i], sc))
		}
		return mv
	case *Unary:
		v := in.eval(e.X, sc)
		if e.Op == "-" {
			return -v.(float64)
		}
		return !v.(bool)
	case *Binary:
		return in.binary(e, sc)
	case *Index:
		x := in.eval(e.X, sc)
		i := in.eval(e.I, sc)
		switch x := x.(type) {
		case *ArrV:
			return x.E[in.index(i.(float64), len(x.E), false)]
		case string:
			r := []rune(x)
			return string(r[in.index(i.(float64), len(r), false)])
		case *MapV:
			v, ok := x.M[i.(string)]
			if !ok {
				in.fail("panic:mapkey", i.(string))
			}
			return v
		}
		panic("model error: index on non-container")
	case *Slice:
		x := in.eval(e.X, sc)
		var lo, hi Value
		if e.Lo != nil {
			lo = in.eval(e.Lo, sc)
		}
		if e.Hi != nil {
			hi = in.eval(e.Hi, sc)
		}
		switch x := x.(type) {
		case *ArrV:
			a, b := in.bounds(lo, hi, len(x.E))
			return &ArrV{E: append([]Value(nil), x.E[a:b]...)}
		case string:
			r := []rune(x)
			a, b := in.bounds(lo, hi, len(r))
			return string(r[a:b])
		}
		panic("model error: slice of non-sequence")
	case *Dot:
		x := in.eval(e.X, sc).(*MapV)
		v, ok := x.M[e.Key]
		if !ok {
			in.fail("panic:mapkey", e.Key)
		}
		return v
	case *Assert:
		a := in.eval(e.X, sc).(*AnyV)
		if !a.T.Eq(e.Ty) {
			in.fail("panic:anyconv", "expected "+e.Ty.String()+", found "+a.T.String())
		}
		return a.V
	case *Call:
		return in.call(e, sc)
	}
	panic(fmt.Sprintf("model error: unknown expression %T", e))
}

// DeepEq is the language's == on two values of the same static type.
func DeepEq(a, b Value) bool {
	switch a := a.(type) {
	case float64:
		return a == b.(float64)
	case string:
		return a == b.(string)
	case bool:
		return a == b.(bool)
	case *AnyV:
		bb := b.(*AnyV)
		return a.T.Eq(bb.T) && DeepEq(a.V, bb.V)
	case *ArrV:
		bb := b.(*ArrV)
		if len(a.E) != len(bb.E) {
			return false
		}
		for i := range a.E {
			if !DeepEq(a.E[i], bb.E[i]) {
				return false
			}
		}
		return true
	case *MapV:
		bb := b.(*MapV)
		if len(a.M) != len(bb.M) {
			return false
		}
		for k, v := range a.M {
			w, ok := bb.M[k]
			if !ok || !DeepEq(v, w) {
				return false
			}
		}
		return true
	}
	panic("model error: DeepEq on unknown value")
}

func cmpRunes(a, b string) int {
	ra, rb := []rune(a), []rune(b)
	for i := 0; i < len(ra) && i < len(rb); i++ {
		if ra[i] != rb[i] {
			if ra[i] < rb[i] {
				return -1
			}
			return 1
		}
	}
	return len(ra) - len(rb)
}

// DeepCopy copies a value including all nested composites.
func DeepCopy(v Value) Value {
	switch v := v.(type) {
	case *ArrV:
		c := &ArrV{E: make([]Value, len(v.E))}
		for i, e := range v.E {
			c.E[i] = DeepCopy(e)
		}
		return c
	case *MapV:
		c := &MapV{M: map[string]Value{}}
		for _, k := range v.Keys {
			c.put(k, DeepCopy(v.M[k]))
		}
		return c
	case *AnyV:
		return &AnyV{T: v.T, V: DeepCopy(v.V)}
	}
	return v
}

func (in *Interp) binary(e *Binary, sc *env) Value {
	l := in.eval(e.L, sc)
	switch e.Op {
	case "and":
		if !l.(bool) {
			return false
		}
		return in.eval(e.R, sc).(bool)
	case "or":
		if l.(bool) {
			return true
		}
		return in.eval(e.R, sc).(bool)
	}
	r := in.eval(e.R, sc)
	switch e.Op {
	case "==":
		return DeepEq(l, r)
	case "!=":
		return !DeepEq(l, r)
	}
	switch a := l.(type) {
	case float64:
		b := r.(float64)
		switch e.Op {
		case "+":
			return finite(in, a+b, "+")
		case "-":
			return finite(in, a-b, "-")
		case "*":
			return finite(in, a*b, "*")
		case "/":
			return finite(in, a/b, "/")
		case "%":
			if a < 0 || b <= 0 {
				in.unspecified("% with non-positive operand")
			}
			q := math.Floor(a / b)
			rem := a - q*b
			if rem != math.Mod(a, b) { // rounding of the textbook formula; do not assert
				in.unspecified("% not exactly representable")
			}
			return math.Mod(a, b) // equal to rem; keeps the sign of a zero result
		case "<":
			return a < b
		case "<=":
			return a <= b
		case ">":
			return a > b
		case ">=":
			return a >= b
		}
	case string:
		b := r.(string)
		c := cmpRunes(a, b)
		switch e.Op {
		case "+":
			if len(a)+len(b) > 200000 {
				in.fail("fuel", "string too large")
			}
			return a + b
		case "<":
			return c < 0
		case "<=":
			return c <= 0
		case ">":
			return c > 0
		case ">=":
			return c >= 0
		}
	case *ArrV:
		switch e.Op {
		case "+":
			b := r.(*ArrV)
			if len(a.E)+len(b.E) > 20000 {
				in.fail("fuel", "array too large")
			}
			out := &ArrV{E: make([]Value, 0, len(a.E)+len(b.E))}
			out.E = append(out.E, a.E...)
			out.E = append(out.E, b.E...)
			return out
		case "*":
			n := r.(float64)
			if math.IsNaN(n) || math.IsInf(n, 0) || n != math.Trunc(n) || n < 0 {
				in.fail("panic:badrepetition", fmt.Sprint(n))
			}
			if n*float64(size(a)) > 20000 {
				in.fail("fuel", "repetition too large")
			}
			out := &ArrV{}
			for i := 0; i < int(n); i++ {
				out.E = append(out.E, DeepCopy(a).(*ArrV).E...)
			}
			return out
		}
	}
	panic("model error: bad binary operation " + e.Op)
}

// size counts the values in v, nested ones included.
func size(v Value) int {
	switch v := v.(type) {
	case *ArrV:
		n := 1
		for _, e := range v.E {
			n += size(e)
		}
		return n
	case *MapV:
		n := 1
		for _, e := range v.M {
			n += size(e)
		}
		return n
	case *AnyV:
		return size(v.V)
	}
	return 1
}

// FormatNum is how numbers print: shortest decimal form without exponent.
func FormatNum(f float64) string { return strconv.FormatFloat(f, 'f', -1, 64) }

// Format renders a value the way print shows it. A value whose printed form exceeds 4 MB
// (a shared sub-array printed thousands of times) ends the reference run like an exhausted budget.
func Format(v Value) string {
	n := 0
	return format(v, &n)
}

func format(v Value, n *int) string {
	s := format1(v, n)
	if *n += len(s); *n > 1<<22 {
		panic(evyPanic{Outcome{Class: "fuel", Msg: "value too large to print"}})
	}
	return s
}

func format1(v Value, n *int) string {
	switch v := v.(type) {
	case float64:
		return FormatNum(v)
	case string:
		return v
	case bool:
		return strconv.FormatBool(v)
	case *AnyV:
		return format(v.V, n)
	case *ArrV:
		parts := make([]string, len(v.E))
		for i, e := range v.E {
			parts[i] = format(e, n)
		}
		return "[" + strings.Join(parts, " ") + "]"
	case *MapV:
		parts := make([]string, 0, len(v.Keys))
		for _, k := range v.Keys {
			parts = append(parts, k+":"+format(v.M[k], n))
		}
		return "{" + strings.Join(parts, " ") + "}"
	}
	panic(fmt.Sprintf("model error: cannot format %T", v))
}

func fnum(x float64) string { return strconv.FormatFloat(x, 'g', -1, 64) }

var decimalRE = regexp.MustCompile(`^[+-]?([0-9]+(\.[0-9]*)?|\.[0-9]+)$`)
var clearlyNotNumRE = regexp.MustCompile(`^[ -~]*$`)

func (in *Interp) setErr(isErr bool, msg string) {
	in.global.vars["err"] = isErr
	in.global.vars["errmsg"] = msg
}

func (in *Interp) call(c *Call, sc *env) Value {
	args := make([]Value, len(c.Args))
	for i, a := range c.Args {
		args[i] = in.eval(a, sc)
	}
	if f, ok := in.funcs[c.Fn]; ok {
		in.Calls++
		in.depth++
		if in.depth > 200 {
			in.fail("fuel", "recursion too deep")
		}
		defer func() { in.depth-- }()
		fsc := newEnv(in.global)
		if f.Variadic {
			fsc.vars[f.Params[0].Name] = &ArrV{E: args}
		} else {
			for i, p := range f.Params {
				if p.Name != "_" {
					fsc.vars[p.Name] = args[i]
				}
			}
		}
		_, v := in.block(f.Body, fsc, false)
		return v
	}
	num := func(i int) float64 { return args[i].(float64) }
	str := func(i int) string { return args[i].(string) }
	unbox := func(v Value) Value {
		if a, ok := v.(*AnyV); ok {
			return a.V
		}
		return v
	}
	switch c.Fn {
	case "print":
		parts := make([]string, len(args))
		for i, a := range args {
			in.noNonFinite(a)
			parts[i] = Format(a)
		}
		in.effect("print:" + strings.Join(parts, " ") + "\n")
		return nil
	case "sprint":
		parts := make([]string, len(args))
		for i, a := range args {
			in.noNonFinite(a)
			parts[i] = Format(a)
		}
		return strings.Join(parts, " ")
	case "read":
		s := ""
		if in.inPos < len(in.Inputs) {
			s = in.Inputs[in.inPos]
			in.inPos++
		}
		in.effect("read:" + s)
		return s
	case "cls":
		in.effect("cls")
		return nil
	case "sleep":
		in.effect("sleep:" + time.Duration(num(0)*float64(time.Second)).String())
		return nil
	case "move", "line", "rect":
		in.effect(c.Fn + ":" + fnum(num(0)) + "," + fnum(num(1)))
		return nil
	case "circle", "width":
		in.effect(c.Fn + ":" + fnum(num(0)))
		return nil
	case "color", "colour":
		in.effect("color:" + str(0))
		return nil
	case "len":
		switch v := unbox(args[0]).(type) {
		case string:
			return float64(len([]rune(v)))
		case *ArrV:
			return float64(len(v.E))
		case *MapV:
			return float64(len(v.M))
		}
		in.fail("panic:badargs", "len")
	case "typeof":
		return args[0].(*AnyV).T.String()
	case "has":
		_, ok := args[0].(*MapV).M[str(1)]
		return ok
	case "del":
		args[0].(*MapV).del(str(1))
		return nil
	case "str2num":
		s := str(0)
		if decimalRE.MatchString(s) {
			f, err := strconv.ParseFloat(s, 64)
			if err != nil {
				in.unspecified("str2num out of range")
			}
			in.setErr(false, "")
			return f
		}
		if s == "" || (clearlyNotNumRE.MatchString(s) && strings.ContainsAny(s, " ghjklmqrstuvwyzGHJKLMQRSTUVWYZ!#$%&*(),/:;<=>?@[]^`{|}~") && !strings.ContainsAny(s, "\"\\")) {
			in.setErr(true, `str2num: cannot parse "`+s+`"`)
			return 0.0
		}
		in.unspecified("str2num on a spelling the documents do not classify: " + s)
	case "str2bool":
		switch str(0) {
		case "true", "True", "TRUE", "1":
			in.setErr(false, "")
			return true
		case "false", "False", "FALSE", "0":
			in.setErr(false, "")
			return false
		}
		s := str(0)
		if strings.ContainsAny(s, "\"\\") || !clearlyNotNumRE.MatchString(s) {
			in.unspecified("str2bool message quoting")
		}
		in.setErr(true, `str2bool: cannot parse "`+s+`"`)
		return false
	case "join":
		a := args[0].(*ArrV)
		parts := make([]string, len(a.E))
		for i, e := range a.E {
			in.noNonFinite(e)
			parts[i] = Format(e)
		}
		return strings.Join(parts, str(1))
	case "upper":
		return strings.ToUpper(str(0))
	case "lower":
		return strings.ToLower(str(0))
	case "abs":
		return math.Abs(num(0))
	case "floor":
		return math.Floor(num(0))
	case "ceil":
		return math.Ceil(num(0))
	case "min":
		return math.Min(num(0), num(1))
	case "max":
		return math.Max(num(0), num(1))
	case "exit":
		n := num(0)
		if n != math.Trunc(n) || math.Abs(n) > 1e9 {
			in.unspecified("exit with non-integer status")
		}
		in.fail("exit:"+strconv.Itoa(int(n)), "")
	case "panic":
		in.fail("panic:user", str(0))
	case "test":
		in.Tests++
		ok := false
		if len(args) == 1 {
			b, isBool := unbox(args[0]).(bool)
			if !isBool {
				in.Tests--
				in.fail("panic:badargs", "test with one non-bool argument")
			}
			ok = b
		} else {
			ok = Same(args[0], args[1])
		}
		if !ok {
			in.Failed++
			if in.FailFast {
				in.fail("test", "")
			}
		}
		return nil
	}
	panic("model error: unknown function " + c.Fn)
}

// Same is the documented sameness of test: equal values, ignoring how
// specific the static types are.
func Same(want, got Value) bool {
	if a, ok := want.(*AnyV); ok {
		want = a.V
	}
	if a, ok := got.(*AnyV); ok {
		got = a.V
	}
	switch w := want.(type) {
	case float64:
		g, ok := got.(float64)
		return ok && g == w
	case string:
		g, ok := got.(string)
		return ok && g == w
	case bool:
		g, ok := got.(bool)
		return ok && g == w
	case *ArrV:
		g, ok := got.(*ArrV)
		if !ok || len(g.E) != len(w.E) {
			return false
		}
		for i := range w.E {
			if !Same(w.E[i], g.E[i]) {
				return false
			}
		}
		return true
	case *MapV:
		g, ok := got.(*MapV)
		if !ok || len(g.M) != len(w.M) {
			return false
		}
		for k, v := range w.M {
			gv, ok := g.M[k]
			if !ok || !Same(v, gv) {
				return false
			}
		}
		return true
	}
	return false
}

func (in *Interp) noNonFinite(v Value) {
	in.fmtDepth++
	defer func() { in.fmtDepth-- }()
	if in.fmtDepth > 64 {
		in.unspecified("cyclic or very deep value")
	}
	switch v := v.(type) {
	case float64:
		finite(in, v, "formatting")
	case *AnyV:
		in.noNonFinite(v.V)
	case *ArrV:
		for _, e := range v.E {
			in.noNonFinite(e)
		}
	case *MapV:
		for _, e := range v.M {
			in.noNonFinite(e)
		}
	}
}
