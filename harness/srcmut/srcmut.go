// Package srcmut produces text-level variants of Evy programs: token edits,
// truncations, splices, raw byte insertions and grammar-respecting re-layouts.
package srcmut

import (
	"strings"

	"evylang.dev/evy/pkg/lexer"
	"pgregory.net/rapid"
)

// Tok is one lexer token together with the exact source text it covers.
type Tok struct {
	Type lexer.TokenType
	Text string
	Lit  string
}

// Lex splits src into tokens that exactly tile it (EOF excluded). It relies
// only on token offsets; if offsets are inconsistent the text is cut at rune
// boundaries as well as possible (C03 checks the offsets themselves).
func Lex(src string) []Tok {
	runes := []rune(src)
	l := lexer.New(src)
	type raw struct {
		t   lexer.TokenType
		off int
		lit string
	}
	var raws []raw
	for i := 0; i < len(runes)+2; i++ {
		t := l.Next()
		raws = append(raws, raw{t.Type, t.Offset, t.Literal})
		if t.Type == lexer.EOF {
			break
		}
	}
	var toks []Tok
	for i := 0; i+1 < len(raws); i++ {
		a, b := raws[i].off, raws[i+1].off
		if a < 0 {
			a = 0
		}
		if b > len(runes) {
			b = len(runes)
		}
		if b < a {
			b = a
		}
		toks = append(toks, Tok{Type: raws[i].t, Text: string(runes[a:b]), Lit: raws[i].lit})
	}
	return toks
}

// Join concatenates token texts.
func Join(toks []Tok) string {
	var sb strings.Builder
	for _, t := range toks {
		sb.WriteString(t.Text)
	}
	return sb.String()
}

// Pool is the substitution vocabulary: every keyword and operator, some
// literals and identifiers, and hostile fragments.
var Pool = []string{
	"func", "on", "end", "if", "else", "while", "for", "range", "return", "break",
	"true", "false", "and", "or", "num", "string", "bool", "any",
	":=", "=", "==", "!=", "<", "<=", ">", ">=", "+", "-", "*", "/", "%", "!",
	"(", ")", "[", "]", "{", "}", ":", ".", "...", ",", ";", "\"", "//", "\n", " ", "\t",
	"1", "0", "2.5", "1.2.3", "\"a\"", "\"\"", "\"\\\"", "[]", "{}", "[:]", "[][:]", "[]*2", ".(", ".(num)",
	"x", "i", "_", "print", "len", "err", "errmsg", "key", "down", "animate", "typeof", "rand1",
	"x:num", "a:[]any", "m:{}num", "x := 1", "print x", "end\n", "else if", "func f\n", "on key\n",
}

// Raw is the raw fragment alphabet for byte insertions.
var Raw = []string{"\x00", "\r", "\r\n", "\xff", "\xc3", "\xe2\x82", "\"", "\\", " ", "\ufeff", "ä", "日", "🌍", "\t", "\v", "\f", "§", "'", "`", "@", "#", "$", "^", "&", "|", "~", "?"}

// Mutate applies k token-level edits to src. other supplies material for splices.
func Mutate(t *rapid.T, src string, other string, k int) (string, []string) {
	toks := Lex(src)
	var ops []string
	for e := 0; e < k; e++ {
		if len(toks) == 0 {
			toks = Lex(rapid.SampledFrom(Pool).Draw(t, "seedtok"))
			continue
		}
		op := rapid.IntRange(0, 9).Draw(t, "op")
		i := rapid.IntRange(0, len(toks)-1).Draw(t, "pos")
		switch op {
		case 0, 1: // delete
			ops = append(ops, "delete")
			toks = append(toks[:i:i], toks[i+1:]...)
		case 2: // duplicate
			ops = append(ops, "duplicate")
			toks = append(toks[:i+1:i+1], toks[i:]...)
		case 3: // swap with next non-identical
			ops = append(ops, "swap")
			if i+1 < len(toks) {
				toks[i], toks[i+1] = toks[i+1], toks[i]
			}
		case 4, 5: // substitute from pool
			ops = append(ops, "substitute")
			toks[i] = Tok{Text: rapid.SampledFrom(Pool).Draw(t, "sub")}
		case 6: // insert from pool
			ops = append(ops, "insert")
			n := Tok{Text: rapid.SampledFrom(Pool).Draw(t, "ins")}
			toks = append(toks[:i:i], append([]Tok{n}, toks[i:]...)...)
		case 7: // truncate
			ops = append(ops, "truncate")
			toks = toks[:i]
		case 8: // raw insertion
			ops = append(ops, "raw")
			n := Tok{Text: rapid.SampledFrom(Raw).Draw(t, "raw")}
			toks = append(toks[:i:i], append([]Tok{n}, toks[i:]...)...)
		case 9: // splice: replace tail with tail of other
			ops = append(ops, "splice")
			o := Lex(other)
			if len(o) > 0 {
				j := rapid.IntRange(0, len(o)-1).Draw(t, "opos")
				toks = append(toks[:i:i], o[j:]...)
			}
		}
	}
	return Join(toks), ops
}

// Window returns src if it has at most maxLines lines, else a contiguous run of lines.
func Window(t *rapid.T, src string, maxLines int) string {
	lines := strings.SplitAfter(src, "\n")
	if len(lines) <= maxLines {
		return src
	}
	n := rapid.IntRange(5, maxLines).Draw(t, "winlen")
	s := rapid.IntRange(0, len(lines)-n).Draw(t, "winstart")
	return strings.Join(lines[s:s+n], "")
}
