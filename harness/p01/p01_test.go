// Package p01 decides C01: expressions evaluate as the language definition prescribes.
package p01

import (
	"strings"
	"testing"

	"pgregory.net/rapid"
	"verif/harness/eng"
	"verif/harness/gen"
	"verif/harness/h"
	"verif/harness/m"
)

func TestProp(t *testing.T) {
	if h.ReplayPath() != "" {
		t.Skip("replay run")
	}
	ctx := h.Setup(t, "C01")
	rapid.Check(t, func(t *rapid.T) {
		cfg := gen.Default
		cfg.Tracers = true
		cfg.Loops = false
		cfg.BlockDepth = 1
		cfg.MaxStmts = 4
		cfg.ExprDepth = 1 + rapid.IntRange(0, 4).Draw(t, "exprdepth")
		g := gen.New(t, cfg)
		p := g.Program()
		src, st := m.Render(p, eng.RapidLayout{T: t, Calm: rapid.Bool().Draw(t, "calm")})
		trace, out, _ := eng.Reference(p, nil)
		if eng.Skip(out) {
			ctx.Rec.Case(false, src, "skipped:"+out.Class)
			return
		}
		c := eng.ProgCase{Src: src, Expect: trace, ExpectClass: out.Class, ExpectMsg: out.Msg, Repeat: 1}
		if strings.Contains(src, "{") {
			c.Repeat = 3 // map literals: Go map iteration order is the adversary
		}
		fl, skipped, _ := eng.Check(c)
		if skipped {
			ctx.Rec.Case(false, src, "skipped:fuel")
			return
		}
		nontrivial := st.OmittedParens > 0 && g.BinaryOps >= 2 || g.ShortCircuitTracers > 0 || g.TracerCalls >= 2
		classes := []string{"outcome:" + out.Class}
		for k := range g.OpPairs {
			classes = append(classes, "oppair:"+k)
		}
		ctx.Rec.Case(nontrivial, src, classes...)
		if nontrivial && ctx.Rec.WantSample() && len(src) < 600 {
			ctx.Rec.Sample(map[string]any{"src": src, "expect": trace, "class": out.Class})
		}
		ctx.Report(t, fl)
	})
}

func TestReplay(t *testing.T) {
	path := h.ReplayPath()
	if path == "" {
		t.Skip("no replay requested")
	}
	ctx := h.Setup(t, "C01")
	var c eng.ProgCase
	if _, err := h.LoadReplay(path, &c); err != nil {
		t.Fatalf("cannot load replay: %v", err)
	}
	fl, _, _ := eng.Check(c)
	ctx.FinishReplay(t, fl)
}
