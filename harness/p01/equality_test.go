package p01

import (
	"testing"

	"pgregory.net/rapid"
	"verif/harness/eng"
	"verif/harness/gen"
	"verif/harness/h"
	"verif/harness/m"
)

// TestEquality: == and != over every type, with operands that are equal by construction
// (the same value written at two places: two literals, a variable and a literal, two any
// variables, nested inside arrays and maps) or differ in exactly one place. Independent
// random operands are almost never equal, so the expression search alone says little
// about the "equal" half of the operator.

// permuted returns a map literal with the pairs in another order (the same map value).
func permuted(t *rapid.T, e m.Expr) m.Expr {
	ml, ok := e.(*m.MapLit)
	if !ok || len(ml.Keys) < 2 {
		return e
	}
	out := &m.MapLit{Ty: ml.Ty}
	k := rapid.IntRange(1, len(ml.Keys)-1).Draw(t, "rot")
	for i := range ml.Keys {
		j := (i + k) % len(ml.Keys)
		out.Keys = append(out.Keys, ml.Keys[j])
		out.Vals = append(out.Vals, ml.Vals[j])
	}
	return out
}

func TestEquality(t *testing.T) {
	if h.ReplayPath() != "" {
		t.Skip("replay run")
	}
	ctx := h.Setup(t, "C01")
	rapid.Check(t, func(t *rapid.T) {
		g := gen.New(t, gen.Cfg{ExprDepth: 2, BlockDepth: 1, MaxStmts: 1, Any: true, Maps: true})
		ty := g.Type(rapid.IntRange(0, 3).Draw(t, "depth"))
		if ty.K == m.Any {
			ty = m.ArrOf(m.TAny)
		}
		a := g.Literal(ty, 2)
		var b m.Expr
		relation := rapid.SampledFrom([]string{"same", "same", "same-permuted", "other"}).Draw(t, "relation")
		switch relation {
		case "same":
			b = a
		case "same-permuted":
			b = permuted(t, a)
		default:
			b = g.Literal(ty, 2)
		}
		av, bv := &m.Var{Name: "a", Ty: ty}, &m.Var{Name: "b", Ty: ty}
		xa, xb := &m.Var{Name: "xa", Ty: m.TAny}, &m.Var{Name: "xb", Ty: m.TAny}
		eq := func(l, r m.Expr) m.Expr {
			return &m.Binary{Op: rapid.SampledFrom([]string{"==", "!="}).Draw(t, "op"), L: l, R: r, Ty: m.TBool}
		}
		at := m.ArrOf(ty)
		mt := m.MapOf(ty)
		stmts := []m.Stmt{
			&m.Decl{Name: "a", Ty: ty, Init: a},
			&m.Decl{Name: "b", Ty: ty, Init: b},
			&m.Decl{Name: "xa", Ty: m.TAny, Typed: true},
			&m.Decl{Name: "xb", Ty: m.TAny, Typed: true},
			&m.Assign{Target: xa, Val: m.AsAny(av)},
			&m.Assign{Target: xb, Val: m.AsAny(b)},
			gen.Print(m.StrLit("vars"), eq(av, bv), eq(bv, av)),
			gen.Print(m.StrLit("literals"), eq(a, b), eq(av, b), eq(a, bv)),
			gen.Print(m.StrLit("any"), eq(xa, xb), eq(xb, xa)),
			gen.Print(m.StrLit("nested"),
				eq(&m.ArrLit{Ty: at, Elems: []m.Expr{av}}, &m.ArrLit{Ty: at, Elems: []m.Expr{b}}),
				eq(&m.MapLit{Ty: mt, Keys: []string{"k"}, Vals: []m.Expr{a}}, &m.MapLit{Ty: mt, Keys: []string{"k"}, Vals: []m.Expr{bv}}),
				eq(&m.ArrLit{Ty: m.ArrOf(m.TAny), Elems: []m.Expr{m.AsAny(m.NumLit(1)), m.AsAny(a)}}, &m.ArrLit{Ty: m.ArrOf(m.TAny), Elems: []m.Expr{m.AsAny(m.NumLit(1)), m.AsAny(b)}})),
		}
		prog := &m.Program{}
		for _, s := range stmts {
			prog.Items = append(prog.Items, m.Item{S: s})
		}
		src, _ := m.Render(prog, eng.RapidLayout{T: t, Calm: true})
		trace, out, _ := eng.Reference(prog, nil)
		if eng.Skip(out) {
			ctx.Rec.Case(false, src, "equality-skipped:"+out.Class)
			return
		}
		c := eng.ProgCase{Src: src, Expect: trace, ExpectClass: out.Class, ExpectMsg: out.Msg, Repeat: 2}
		fl, skipped, _ := eng.Check(c)
		if skipped {
			return
		}
		ctx.Rec.Case(ty.Composite(), src, "equality:"+relation, "equality-type-depth:"+string(rune('0'+ty.Depth())))
		if ctx.Rec.WantSample() && len(src) < 500 && ty.Depth() >= 2 {
			ctx.Rec.Sample(map[string]any{"src": src, "expect": trace})
		}
		ctx.Report(t, fl)
	})
}
