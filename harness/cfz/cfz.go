package cfz

import (
	"strconv"
	"strings"

	"pgregory.net/rapid"
	"verif/harness/eng"
	"verif/harness/gen"
	"verif/harness/m"
)

// Program builds a program whose statements are syntactically fine but mostly ill-typed:
// a generated well-typed program, followed by typed contexts (typed declaration plus
// assignment, parameter, variadic parameter, return value, element and field store,
// operator operand, index, range, condition, type assertion) that are filled with
// generated expressions of an unrelated type, including element/field selections of
// literals and empty literals. Parsing must answer with located diagnostics, never crash.
func Program(t *rapid.T, related bool) (string, []string) {
	g := gen.New(t, gen.Cfg{ExprDepth: 2, BlockDepth: 1, MaxStmts: 3, Any: true, Maps: true, Funcs: rapid.Bool().Draw(t, "funcs"), Loops: true, Builtins: true})
	p := g.Program()
	lay := eng.RapidLayout{T: t, Calm: true}
	src, _ := m.Render(p, lay)
	var sb strings.Builder
	sb.WriteString(src)
	var ops []string
	expr := func(label string) (string, *m.Type) {
		S := g.Type(rapid.IntRange(0, 3).Draw(t, label+"depth"))
		if S.K == m.Any {
			S = m.ArrOf(m.TAny)
		}
		e := g.Natural(S, rapid.IntRange(0, 2).Draw(t, label+"exprdepth"))
		s := m.RenderExpr(e, lay)
		switch rapid.IntRange(0, 11).Draw(t, label+"wrap") {
		case 10, 11:
			// a concatenation / repetition / slice of literals, one of which holds a composite variable
			var cands []*gen.VarInfo
			for _, v := range g.Visible() {
				if v.Ty.Composite() {
					cands = append(cands, v)
				}
			}
			if len(cands) > 0 {
				v := cands[rapid.IntRange(0, len(cands)-1).Draw(t, label+"cvar")]
				l := "[" + m.RenderExpr(g.Literal(v.Ty, 1), lay) + "]"
				form := rapid.IntRange(0, 4).Draw(t, label+"cform")
				s = []string{l + " + [" + v.Name + "]", "[" + v.Name + "] + " + l, "[" + v.Name + "] * 2", "(" + l + " + [" + v.Name + "])[:]", "[" + l + " [" + v.Name + "]]"}[form]
				S = m.ArrOf(v.Ty)
				if form == 4 {
					S = m.ArrOf(S)
				}
			}
		case 0:
			s = "[" + s + "][0]"
		case 1:
			s = "{k:" + s + "}.k"
		case 2:
			s = "[" + s + " []][0]"
		case 3:
			s = "{k:" + s + " l:{}}[\"k\"]"
		case 4:
			s = "(" + s + ")"
		case 5:
			s = rapid.SampledFrom([]string{"[]", "{}", "[[]]", "[{}]", "{k:[]}", "[[]][0]", "[{}][0]", "{k:[]}.k", "{k:{}}.k", "[[[]]][0][0]", "[[] []][1]",
				"[[]] + [[]]", "[{}] + [{}]", "([[]])", "[[]] * 2", "[[]][:]", "[] + []", "([[]] + [[]])[0]"}).Draw(t, label+"empty")
		}
		return s, S
	}
	n := rapid.IntRange(1, 4).Draw(t, "contexts")
	for i := 0; i < n; i++ {
		T := g.Type(rapid.IntRange(0, 3).Draw(t, "Tdepth"))
		e, S := expr("e" + strconv.Itoa(i))
		if related && rapid.IntRange(0, 3).Draw(t, "related") > 0 {
			// a required type that is the value's own type or its any-based variant: more of these are accepted and run
			T = S
			if rapid.Bool().Draw(t, "anyvariant") {
				T = anyVariant(S, rapid.IntRange(0, 3).Draw(t, "anyat"))
			}
		}
		v := "q" + strconv.Itoa(i)
		k := rapid.SampledFrom([]string{"assign", "param", "variadic", "return", "element", "field", "operand", "index", "range", "condition", "assertion", "decl-then-assign", "store", "store", "any-compare", "typeof-any"}).Draw(t, "context")
		ops = append(ops, "confuse:"+k)
		switch k {
		case "assign":
			sb.WriteString(v + ":" + T.String() + "\n" + v + " = " + e + "\nprint " + v + "\n")
		case "param":
			sb.WriteString("func f" + v + " p:" + T.String() + "\n    print p\nend\nf" + v + " " + e + "\n")
		case "variadic":
			sb.WriteString("func f" + v + " p:" + T.String() + "...\n    print p\nend\nf" + v + " " + e + " " + e + "\n")
		case "return":
			sb.WriteString("func f" + v + ":" + T.String() + "\n    return " + e + "\nend\nprint (f" + v + ")\n")
		case "element":
			sb.WriteString(v + ":[]" + T.String() + "\n" + v + "[0] = " + e + "\nprint " + v + "\n")
		case "field":
			sb.WriteString(v + ":{}" + T.String() + "\n" + v + ".k = " + e + "\nprint " + v + "\n")
		case "operand":
			op := rapid.SampledFrom([]string{"+", "-", "*", "/", "%", "==", "!=", "<", "<=", ">", ">=", "and", "or"}).Draw(t, "op")
			e2, _ := expr("f" + strconv.Itoa(i))
			sb.WriteString(v + ":" + T.String() + "\n" + v + " = " + e + " " + op + " " + e2 + "\nprint " + v + "\n")
		case "index":
			e2, _ := expr("f" + strconv.Itoa(i))
			sb.WriteString(v + ":" + T.String() + "\n" + v + " = (" + e + ")[" + e2 + "]\nprint " + v + "\n" + v + " = (" + e + ")[" + e2 + ":]\n")
		case "range":
			// the loop variable (whatever type the range gives it, if any) used in every expression form
			x := "x" + v
			use := rapid.SampledFrom([]string{v + " = " + x, "print " + x + " + 1", "print " + x + " == " + x, "print " + x + "[0]", "print " + x + "[1:]",
				"print " + x + ".k", "print -" + x, "print !" + x, "print (len " + x + ")", "print " + x + ".(num)", "for y" + v + " := range " + x + "\n        print y" + v + "\n    end",
				"print [" + x + "] {k:" + x + "}", x + " = " + x, "if " + x + "\n        print 1\n    end"}).Draw(t, "loopvaruse")
			sb.WriteString(v + ":" + T.String() + "\nfor " + x + " := range " + e + "\n    " + use + "\nend\nprint " + v + "\n")
		case "condition":
			sb.WriteString("if " + e + "\n    print 1\nend\n")
		case "assertion":
			sb.WriteString(v + ":" + T.String() + "\n" + v + "a:any\n" + v + "a = " + e + "\n" + v + " = " + v + "a.(" + S.String() + ")\nprint " + v + " " + v + "a\n" + v + " = (" + e + ").(" + T.String() + ")\n")
		case "store":
			// a store through a chain of selectors into a literal-initialised variable; the chain
			// may end inside a string (which cannot be stored into) or go one step too deep
			C := g.Type(rapid.IntRange(1, 3).Draw(t, "Cdepth"))
			for !C.Composite() || C.Sub.K == m.Any {
				C = m.ArrOf(m.ArrOf(m.TStr))
			}
			init := g.Literal(C, 2)
			target, cur := v, C
			steps := rapid.IntRange(1, 4).Draw(t, "chainlen")
			for j := 0; j < steps && cur != nil; j++ {
				switch cur.K {
				case m.Arr:
					target += "[" + rapid.SampledFrom([]string{"0", "-1", "1"}).Draw(t, "ix") + "]"
					cur = cur.Sub
				case m.Map:
					if keys := mapKeys(init); len(keys) > 0 && j == 0 {
						target += "." + keys[0]
					} else {
						target += rapid.SampledFrom([]string{".a", "[\"a\"]", ".k1"}).Draw(t, "key")
					}
					cur = cur.Sub
				case m.Str:
					target += "[" + rapid.SampledFrom([]string{"0", "-1"}).Draw(t, "six") + "]"
					cur = nil // nothing below a character
				default:
					cur = nil
				}
			}
			rhs := e
			if cur != nil && cur.K != m.Any && rapid.IntRange(0, 3).Draw(t, "welltyped") > 0 {
				rhs = m.RenderExpr(g.Natural(cur, 1), lay)
			} else if cur == nil && rapid.Bool().Draw(t, "strrhs") {
				rhs = "\"x\""
			}
			sb.WriteString(v + " := " + m.RenderExpr(init, lay) + "\n" + target + " = " + rhs + "\nprint " + v + "\n")
		case "any-compare":
			// two any values of whatever types compared with each other: == is defined for operands of the same static type
			e2, _ := expr("g" + strconv.Itoa(i))
			sb.WriteString(v + "a:any\n" + v + "b:any\n" + v + "a = " + e + "\n" + v + "b = " + e2 + "\nprint (" + v + "a == " + v + "b) (" + v + "a != " + v + "b) (" + v + "b == " + v + "a) ([" + v + "a] == [" + v + "b])\n")
		case "typeof-any":
			// the type a value carries inside an any, as typeof reports it (marked so that the run can be checked for it)
			sb.WriteString(v + "a:any\n" + v + "a = " + e + "\nprint \"typeof-any:\" (typeof " + v + "a) (typeof [" + v + "a][0])\n")
		case "decl-then-assign":
			sb.WriteString(v + " := " + e + "\n" + v + "b:" + T.String() + "\n" + v + "b = " + v + "\n" + v + " = " + v + "b\n")
		}
	}
	return sb.String(), ops
}

// anyVariant returns S with the type at nesting level n (counted from the outside) replaced by any.
func anyVariant(S *m.Type, n int) *m.Type {
	if n <= 0 || !S.Composite() {
		return m.TAny
	}
	return &m.Type{K: S.K, Sub: anyVariant(S.Sub, n-1)}
}

func mapKeys(e m.Expr) []string {
	if ml, ok := e.(*m.MapLit); ok {
		return ml.Keys
	}
	return nil
}
