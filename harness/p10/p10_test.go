// Package p10 decides C10: lexical scoping and structured control flow.
package p10

import (
	"testing"

	"pgregory.net/rapid"
	"verif/harness/eng"
	"verif/harness/gen"
	"verif/harness/h"
	"verif/harness/m"
)

func TestProp(t *testing.T) {
	if h.ReplayPath() != "" {
		t.Skip("replay run")
	}
	ctx := h.Setup(t, "C10")
	rapid.Check(t, func(t *rapid.T) {
		cfg := gen.Default
		cfg.Loops, cfg.Funcs, cfg.Shadow, cfg.EarlyExit, cfg.Markers, cfg.Recursion = true, true, true, true, true, true
		cfg.ExprDepth = 1 + rapid.IntRange(0, 1).Draw(t, "exprdepth")
		cfg.BlockDepth = 2 + rapid.IntRange(0, 2).Draw(t, "blockdepth")
		cfg.MaxStmts = 4
		cfg.Asserts = false
		g := gen.New(t, cfg)
		p := g.Program()
		src, _ := m.Render(p, eng.RapidLayout{T: t, Calm: true})
		trace, out, in := eng.Reference(p, nil)
		if eng.Skip(out) {
			ctx.Rec.Case(false, src, "skipped:"+out.Class)
			return
		}
		c := eng.ProgCase{Src: src, Expect: trace, ExpectClass: out.Class, ExpectMsg: out.Msg}
		fl, skipped, _ := eng.Check(c)
		if skipped {
			ctx.Rec.Case(false, src, "skipped:fuel")
			return
		}
		classes := []string{"outcome:" + out.Class}
		for k := range g.RangeKinds {
			classes = append(classes, "range:"+k)
		}
		if g.Shadows > 0 {
			classes = append(classes, "shadowing")
		}
		if g.EarlyReturns > 0 {
			classes = append(classes, "early-return")
		}
		if g.Breaks > 0 {
			classes = append(classes, "break")
		}
		if in.Iterations > 0 {
			classes = append(classes, "loops-executed")
		}
		nontrivial := g.Shadows > 0 || g.EarlyReturns > 0 || g.Breaks > 0 || len(g.RangeKinds) > 1
		ctx.Rec.Case(nontrivial, src, classes...)
		if nontrivial && ctx.Rec.WantSample() && len(src) < 1500 {
			ctx.Rec.Sample(map[string]any{"src": src, "expect": trace, "class": out.Class})
		}
		ctx.Report(t, fl)
	})
}

func TestReplay(t *testing.T) {
	path := h.ReplayPath()
	if path == "" {
		t.Skip("no replay requested")
	}
	ctx := h.Setup(t, "C10")
	var c eng.ProgCase
	if _, err := h.LoadReplay(path, &c); err != nil {
		t.Fatalf("cannot load replay: %v", err)
	}
	fl, _, _ := eng.Check(c)
	ctx.FinishReplay(t, fl)
}
