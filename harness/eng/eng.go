// Package eng connects the model (generator, renderer, reference interpreter)
// with the real pipeline (parser, evaluator on a recording platform).
package eng

import (
	"fmt"
	"strings"

	"pgregory.net/rapid"
	"verif/harness/h"
	"verif/harness/m"
	"verif/harness/rec"
)

// RapidLayout draws layout decisions from rapid. With Calm set, most picks are canonical.
type RapidLayout struct {
	T    *rapid.T
	Calm bool
}

// Pick implements m.Layout.
func (l RapidLayout) Pick(label string, n int) int {
	if n <= 1 {
		return 0
	}
	if l.Calm && rapid.IntRange(0, 3).Draw(l.T, "calm") != 0 {
		return 0
	}
	return rapid.IntRange(0, n-1).Draw(l.T, label)
}

// ProgCase is a replayable case: a source text with the effects and outcome
// the reference interpreter derived from the model it was rendered from.
type ProgCase struct {
	Src         string   `json:"src"`
	Inputs      []string `json:"inputs,omitempty"`
	Expect      []string `json:"expect_trace"`
	ExpectClass string   `json:"expect_class"`
	ExpectMsg   string   `json:"expect_msg,omitempty"`
	Note        string   `json:"note,omitempty"`
	Repeat      int      `json:"repeat,omitempty"` // run this many times (order-dependent defects show up only sometimes)
}

// Reference runs the reference interpreter on the model program.
func Reference(p *m.Program, inputs []string) ([]string, m.Outcome, *m.Interp) {
	in := m.NewInterp(p, inputs)
	out := in.Run()
	return in.Log, out, in
}

// Skip reports whether the reference declined to predict the run.
func Skip(o m.Outcome) bool { return o.Class == "unspecified" || o.Class == "fuel" }

func classMatches(want, got string) bool {
	for _, w := range strings.Split(want, "|") {
		if w == got {
			return true
		}
	}
	return false
}

// Check runs the real pipeline on c.Src and compares with the expectation.
// skipped is true when the real run exhausted its fuel (no verdict).
func Check(c ProgCase) (fl *h.Failure, skipped bool, res *rec.Result) {
	for i := 0; i < max(c.Repeat, 1); i++ {
		fl, skipped, res = checkOnce(c)
		if fl != nil || skipped {
			break
		}
	}
	return fl, skipped, res
}

func checkOnce(c ProgCase) (fl *h.Failure, skipped bool, res *rec.Result) {
	res = rec.Run(c.Src, rec.Opts{Inputs: c.Inputs})
	mk := func(kind, detail string) *h.Failure {
		return &h.Failure{Kind: kind, Detail: detail, Src: c.Src, Case: c, Callsite: rec.TopFrame(res.Out.Stack)}
	}
	switch res.Out.Class {
	case "gopanic":
		return mk("gopanic", res.Out.Msg), false, res
	case "parse":
		return mk("rejected", "a program that is well-typed by construction was rejected: "+res.Out.Msg), false, res
	case "internal":
		return mk("internal", res.Out.Msg), false, res
	}
	if res.FuelOut || res.TooMuch {
		return nil, true, res
	}
	if d := DiffTrace(c.Expect, res.Trace); d != "" {
		return mk("trace", fmt.Sprintf("effects differ from the language definition: %s\n(reference outcome %s, evaluator outcome %s)", d, c.ExpectClass, res.Out)), false, res
	}
	if !classMatches(c.ExpectClass, res.Out.Class) {
		return mk("outcome", fmt.Sprintf("run ended with %s, the language definition prescribes %s %s", res.Out, c.ExpectClass, c.ExpectMsg)), false, res
	}
	return nil, false, res
}

// DiffTrace describes the first difference between two effect traces ("" if equal).
func DiffTrace(want, got []string) string {
	for i := 0; i < len(want) || i < len(got); i++ {
		var w, g string
		if i < len(want) {
			w = want[i]
		}
		if i < len(got) {
			g = got[i]
		}
		if i >= len(want) {
			return fmt.Sprintf("effect #%d: unexpected extra effect %q (expected %d effects)", i+1, g, len(want))
		}
		if i >= len(got) {
			return fmt.Sprintf("effect #%d: missing, expected %q (got only %d effects)", i+1, w, len(got))
		}
		if w != g {
			return fmt.Sprintf("effect #%d: expected %q, got %q", i+1, w, g)
		}
	}
	return ""
}
