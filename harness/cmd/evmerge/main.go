// evmerge prints the size of the union of the uint64 hash files given as arguments.
package main

import (
	"encoding/binary"
	"fmt"
	"os"
)

func main() {
	set := map[uint64]struct{}{}
	for _, f := range os.Args[1:] {
		b, err := os.ReadFile(f)
		if err != nil {
			continue
		}
		for i := 0; i+8 <= len(b); i += 8 {
			set[binary.LittleEndian.Uint64(b[i:])] = struct{}{}
		}
	}
	fmt.Println(len(set))
}
