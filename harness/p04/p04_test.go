// Package p04 decides C04: static typing rules are exactly those of the specification.
package p04

import (
	"fmt"
	"os"
	"strings"
	"testing"

	"pgregory.net/rapid"
	"verif/harness/h"
	"verif/harness/m"
	"verif/harness/rec"
)

// Case is one cell of the typing matrix as a tiny program.
type Case struct {
	Src    string `json:"src"`
	Cell   string `json:"cell"`
	Accept bool   `json:"accept"`
	Typeof string `json:"typeof,omitempty"` // expected last output line when accepted ("" = not asserted)
	Why    string `json:"why,omitempty"`
}

func group(cell string) string {
	g := cell
	if i := strings.Index(cell, " ("); i > 0 {
		g = cell[:i]
	}
	f := strings.Fields(g)
	if len(f) >= 5 && f[2] == "<-" { // "ctx: T <- kind S"
		return f[0] + " " + f[3]
	}
	if len(f) > 0 {
		return f[0]
	}
	return g
}

func checkCase(c Case) *h.Failure {
	mk := func(kind, detail string) *h.Failure {
		return &h.Failure{Kind: kind, Detail: detail, Src: c.Src, Case: c, Callsite: group(c.Cell)}
	}
	prog, errs, crash := rec.SafeParse(c.Src)
	if crash != nil {
		return &h.Failure{Kind: crash.Class, Detail: crash.Msg, Src: c.Src, Case: c, Callsite: rec.TopFrame(crash.Stack)}
	}
	if (prog != nil) != c.Accept {
		if c.Accept {
			return mk("rejected", fmt.Sprintf("cell %s: the specification accepts this (%s), the parser rejects it: %s", c.Cell, c.Why, errs.Error()))
		}
		return mk("accepted", fmt.Sprintf("cell %s: the specification rejects this (%s), the parser accepts it", c.Cell, c.Why))
	}
	if prog == nil || c.Typeof == "" {
		return nil
	}
	res := rec.RunProg(prog, rec.Opts{Fuel: 5000}, nil)
	if res.Out.Class != "ok" {
		if res.Out.Class == "gopanic" || res.Out.Class == "internal" {
			return &h.Failure{Kind: res.Out.Class, Detail: res.Out.Msg, Src: c.Src, Case: c, Callsite: rec.TopFrame(res.Out.Stack)}
		}
		return nil
	}
	lines := strings.Split(strings.TrimSuffix(rec.PrintText(res.Trace), "\n"), "\n")
	if got := lines[len(lines)-1]; got != c.Typeof {
		return mk("typeof", fmt.Sprintf("cell %s: static type is %q, the specification says %q (%s)", c.Cell, got, c.Typeof, c.Why))
	}
	return nil
}

// ---- the specification's rules over model types ----

type value struct {
	src      string
	ty       *m.Type // natural (inferred) type
	constant bool
	shape    *m.Type // for (nested) empty literals: type with None at the untyped positions
	pre      []string
	kind     string
	wrap     string // loop header the use of the value is placed in (the value is its loop variable)
	varLevel int    // for literals that contain a variable: its nesting level (1 = direct element)
}

func basicLit(t *m.Type, alt bool) string {
	switch t.K {
	case m.Num:
		if alt {
			return "2"
		}
		return "1"
	case m.Str:
		if alt {
			return "\"b\""
		}
		return "\"a\""
	case m.Bool:
		if alt {
			return "false"
		}
		return "true"
	}
	panic("basicLit")
}

// lit returns a constant literal whose inferred type is exactly t (t != any).
func lit(t *m.Type) string {
	switch t.K {
	case m.Num, m.Str, m.Bool:
		return basicLit(t, false)
	case m.Arr:
		if t.Sub.K == m.Any {
			return "[1 \"a\"]"
		}
		if t.Sub.Basic() {
			return "[" + basicLit(t.Sub, false) + " " + basicLit(t.Sub, true) + "]"
		}
		return "[" + lit(t.Sub) + "]"
	case m.Map:
		if t.Sub.K == m.Any {
			return "{a:1 b:\"s\"}"
		}
		return "{k:" + lit(t.Sub) + "}"
	}
	panic("lit of any")
}

func isAccepted(T *m.Type, v value) (bool, string) {
	if v.shape != nil {
		if T.K == m.Any {
			return true, "any accepts everything"
		}
		if shapeMatches(T, v.shape) {
			return true, "empty composite literals take the type the context requires"
		}
		return false, "empty literal of another structure"
	}
	if T.Eq(v.ty) {
		return true, "identical types"
	}
	if T.K == m.Any {
		return true, "any accepts everything"
	}
	if v.constant && T.Composite() && convertible(v.ty, T) {
		return true, "a constant converts to the any-based composite of the same structure"
	}
	if v.constant {
		return false, "constant of another type"
	}
	return false, "a variable is assignable only to an identical type or to any"
}

func convertible(S, T *m.Type) bool {
	for T.Composite() {
		if S.K != T.K {
			return false
		}
		S, T = S.Sub, T.Sub
	}
	return T.K == m.Any
}

func shapeMatches(T, shape *m.Type) bool {
	if shape.K == m.None {
		return true
	}
	if T.K == m.Any {
		return true
	}
	return T.K == shape.K && shapeMatches(T.Sub, shape.Sub)
}

// ---- enumeration ----

func typesUpTo(depth int) []*m.Type {
	out := []*m.Type{m.TNum, m.TStr, m.TBool, m.TAny}
	prev := out
	for d := 0; d < depth; d++ {
		var next []*m.Type
		for _, t := range prev {
			next = append(next, m.ArrOf(t), m.MapOf(t))
		}
		out = append(out, next...)
		prev = next
	}
	return out
}

func varOf(t *m.Type) value {
	return value{src: "s", ty: t, pre: []string{"s:" + t.String()}, kind: "variable"}
}

func constOf(t *m.Type) value { return value{src: lit(t), ty: t, constant: true, kind: "constant"} }

var empties = []value{
	{src: "[]", ty: m.ArrOf(m.TAny), constant: true, shape: m.ArrOf(m.TNone), kind: "empty"},
	{src: "{}", ty: m.MapOf(m.TAny), constant: true, shape: m.MapOf(m.TNone), kind: "empty"},
	{src: "[[]]", ty: m.ArrOf(m.ArrOf(m.TAny)), constant: true, shape: m.ArrOf(m.ArrOf(m.TNone)), kind: "empty"},
	{src: "[{}]", ty: m.ArrOf(m.MapOf(m.TAny)), constant: true, shape: m.ArrOf(m.MapOf(m.TNone)), kind: "empty"},
	{src: "{k:[]}", ty: m.MapOf(m.ArrOf(m.TAny)), constant: true, shape: m.MapOf(m.ArrOf(m.TNone)), kind: "empty"},
	{src: "{k:{}}", ty: m.MapOf(m.MapOf(m.TAny)), constant: true, shape: m.MapOf(m.MapOf(m.TNone)), kind: "empty"},
	// an empty literal reached through an element or field of a literal is still an empty literal
	{src: "[[]][0]", ty: m.ArrOf(m.TAny), constant: true, shape: m.ArrOf(m.TNone), kind: "empty:element"},
	{src: "[{}][0]", ty: m.MapOf(m.TAny), constant: true, shape: m.MapOf(m.TNone), kind: "empty:element"},
	{src: "{k:[]}.k", ty: m.ArrOf(m.TAny), constant: true, shape: m.ArrOf(m.TNone), kind: "empty:field"},
	{src: "{k:{}}[\"k\"]", ty: m.MapOf(m.TAny), constant: true, shape: m.MapOf(m.TNone), kind: "empty:field"},
	{src: "[[[]]][0]", ty: m.ArrOf(m.ArrOf(m.TAny)), constant: true, shape: m.ArrOf(m.ArrOf(m.TNone)), kind: "empty:element"},
	{src: "([[]])[0]", ty: m.ArrOf(m.TAny), constant: true, shape: m.ArrOf(m.TNone), kind: "empty:element"},
}

// constant expressions built from literals: treated like constants
func constExprs(t *m.Type) []value {
	l := lit(t)
	sel := []value{
		{src: "[" + l + "][0]", ty: t, constant: true, kind: "const-expr:element"},
		{src: "{k:" + l + "}.k", ty: t, constant: true, kind: "const-expr:field"},
		{src: "{k:" + l + "}[\"k\"]", ty: t, constant: true, kind: "const-expr:field"},
	}
	if t.K != m.Arr || t.Sub.K == m.Any {
		return append(sel, value{src: "(" + l + ")", ty: t, constant: true, kind: "const-expr:group"})
	}
	return append(sel, []value{
		{src: "(" + l + ")", ty: t, constant: true, kind: "const-expr:group"},
		{src: l + "+" + l, ty: t, constant: true, kind: "const-expr:concat"},
		{src: l + "[:1]", ty: t, constant: true, kind: "const-expr:slice"},
		{src: l + "*2", ty: t, constant: true, kind: "const-expr:repeat"},
		{src: "[]+" + l, ty: t, constant: true, kind: "const-expr:empty-concat"},
	}...)
}

// anyVariant returns S with the type at nesting level n replaced by any.
func anyVariant(S *m.Type, n int) *m.Type {
	if n <= 0 || !S.Composite() {
		return m.TAny
	}
	return &m.Type{K: S.K, Sub: anyVariant(S.Sub, n-1)}
}

// elementwise reports whether assigning v (a literal that contains a variable) to T is a
// conversion that happens element by element above the variable: T is v's type with any at
// a level that does not reach into a composite variable. The specification rejects these
// (the literal is not a constant); the parser's notion of constant is per element (finding F26).
func elementwise(T *m.Type, v value) bool {
	if v.varLevel == 0 || T.K == m.Any || T.Eq(v.ty) {
		return false
	}
	for n := 1; n <= v.varLevel; n++ {
		if T.Eq(anyVariant(v.ty, n)) {
			return strings.HasSuffix(v.kind, ":basic") || n < v.varLevel
		}
	}
	return false
}

func varClass(t *m.Type) string {
	if t.Basic() {
		return "basic"
	}
	return "composite"
}

// expressions over variables: treated like variables
func varExprs(t *m.Type) []value {
	out := []value{{src: "(s)", ty: t, pre: []string{"s:" + t.String()}, kind: "var-expr:group"}}
	if t.K == m.Arr && t.Sub.K != m.Any {
		// a composite literal that contains a variable is not a constant
		out = append(out, value{src: "[e " + lit(t.Sub) + "]", ty: t, pre: []string{"e:" + t.Sub.String()}, kind: "literal-with-variable:" + varClass(t.Sub), varLevel: 1},
			value{src: "[" + lit(t.Sub) + " e]", ty: t, pre: []string{"e:" + t.Sub.String()}, kind: "literal-with-variable:" + varClass(t.Sub), varLevel: 1})
	}
	if t.K == m.Map && t.Sub.K != m.Any {
		out = append(out, value{src: "{a:e b:" + lit(t.Sub) + "}", ty: t, pre: []string{"e:" + t.Sub.String()}, kind: "literal-with-variable:" + varClass(t.Sub), varLevel: 1})
	}
	if t.K == m.Arr && t.Sub.Composite() && t.Sub.Sub.K != m.Any {
		// the variable sits one level further down
		inner := "[e]"
		if t.Sub.K == m.Map {
			inner = "{a:e}"
		}
		out = append(out, value{src: "[" + inner + " " + lit(t.Sub) + "]", ty: t, pre: []string{"e:" + t.Sub.Sub.String()}, kind: "literal-with-nested-variable:" + varClass(t.Sub.Sub), varLevel: 2},
			value{src: "[" + lit(t.Sub) + " " + inner + "]", ty: t, pre: []string{"e:" + t.Sub.Sub.String()}, kind: "literal-with-nested-variable:" + varClass(t.Sub.Sub), varLevel: 2})
	}
	if t.K == m.Arr {
		out = append(out,
			value{src: "s+s", ty: t, pre: []string{"s:" + t.String()}, kind: "var-expr:concat"},
			value{src: "s[:]", ty: t, pre: []string{"s:" + t.String()}, kind: "var-expr:slice"},
			value{src: "s*1", ty: t, pre: []string{"s:" + t.String()}, kind: "var-expr:repeat"},
		)
		if t.Sub.K != m.Any {
			out = append(out, value{src: lit(t) + "+s", ty: t, pre: []string{"s:" + t.String()}, kind: "var-expr:literal-concat-var"})
		}
		if t.Sub.Composite() {
			// a concatenation of literals one of which holds a composite variable
			out = append(out,
				value{src: lit(t) + "+[e]", ty: t, pre: []string{"e:" + t.Sub.String()}, kind: "var-expr:literal-concat-literal-with-variable"},
				value{src: "[e]+" + lit(t), ty: t, pre: []string{"e:" + t.Sub.String()}, kind: "var-expr:literal-concat-literal-with-variable"},
				value{src: "(" + lit(t) + "+[e])[:]", ty: t, pre: []string{"e:" + t.Sub.String()}, kind: "var-expr:literal-concat-literal-with-variable"},
				value{src: "[e]*2", ty: t, pre: []string{"e:" + t.Sub.String()}, kind: "var-expr:repeat-literal-with-variable"})
		}
	}
	out = append(out,
		value{src: "ss[0]", ty: t, pre: []string{"ss:[]" + t.String()}, kind: "var-expr:element"},
		value{src: "sm.k", ty: t, pre: []string{"sm:{}" + t.String()}, kind: "var-expr:field"},
		value{src: "(sf)", ty: t, pre: []string{"func sf:" + t.String(), "    r:" + t.String(), "    return r", "end"}, kind: "var-expr:call"},
	)
	if t.K != m.Any {
		out = append(out, value{src: "sy.(" + t.String() + ")", ty: t, pre: []string{"sy:any", "sy = " + lit(t)}, kind: "var-expr:type-assertion"})
	}
	return out
}

func cellProgram(ctx string, T *m.Type, v value) (string, string) {
	var sb strings.Builder
	for _, l := range v.pre {
		sb.WriteString(l + "\n")
	}
	typeof := ""
	switch ctx {
	case "assign":
		sb.WriteString("t:" + T.String() + "\nt = " + v.src + "\nprint \"typeof\"\nprint (typeof t)\n")
		if T.K != m.Any {
			typeof = T.String()
		}
	case "param":
		sb.WriteString("func f p:" + T.String() + "\n    print \"typeof\"\n    print (typeof p)\nend\nf " + v.src + "\n")
		if T.K != m.Any {
			typeof = T.String()
		}
	case "variadic":
		sb.WriteString("func f p:" + T.String() + "...\n    print \"typeof\"\n    print (typeof p)\nend\nf " + v.src + " " + v.src + "\n")
		typeof = "[]" + T.String()
	case "return":
		sb.WriteString("func f:" + T.String() + "\n    return " + v.src + "\nend\nr := f\nprint \"typeof\"\nprint (typeof r)\n")
		if T.K != m.Any {
			typeof = T.String()
		}
	case "element-assign":
		sb.WriteString("t:[]" + T.String() + "\nt = t + t\nif (len t) > 0\n    t[0] = " + v.src + "\nend\nprint \"typeof\"\nprint (typeof t)\n")
		typeof = "[]" + T.String()
	case "field-assign":
		sb.WriteString("t:{}" + T.String() + "\nt.k = " + v.src + "\nprint \"typeof\"\nprint (typeof t)\n")
		typeof = "{}" + T.String()
	}
	return sb.String(), typeof
}

var assignContexts = []string{"assign", "param", "variadic", "return", "element-assign", "field-assign"}

func useAll(pre []string) string {
	// declared helper variables must be used: print them
	var names []string
	for _, l := range pre {
		if i := strings.Index(l, ":"); i > 0 && !strings.HasPrefix(l, "func") && m.IsIdent(l[:i]) {
			names = append(names, l[:i])
		}
	}
	if len(names) == 0 {
		return ""
	}
	return "print " + strings.Join(names, " ") + "\n"
}

// assignability cells for all type pairs up to the given depth
func assignCells(depth int, emit func(Case)) {
	types := typesUpTo(depth)
	for _, T := range types {
		for _, S := range types {
			vals := []value{varOf(S)}
			vals = append(vals, varExprs(S)...)
			if S.K != m.Any {
				vals = append(vals, constOf(S))
				vals = append(vals, constExprs(S)...)
			}
			for _, v := range vals {
				for _, ctx := range assignContexts {
					emitCell(ctx, T, v, emit)
				}
			}
			for _, v := range loopVars(S) {
				for _, ctx := range loopContexts {
					emitCell(ctx, T, v, emit)
				}
			}
		}
		for _, v := range empties {
			for _, ctx := range assignContexts {
				emitCell(ctx, T, v, emit)
			}
		}
	}
}

// loop variables are variables, whatever is ranged over
func loopVars(t *m.Type) []value {
	out := []value{{src: "s", ty: t, pre: []string{"sa:[]" + t.String(), "sa = sa + sa"}, wrap: "for s := range sa", kind: "loop-var:array-variable"}}
	if t.K != m.Any {
		out = append(out, value{src: "s", ty: t, wrap: "for s := range [" + lit(t) + "]", kind: "loop-var:array-literal"})
	}
	switch t.K {
	case m.Str:
		out = append(out, value{src: "s", ty: t, wrap: "for s := range {a:1}", kind: "loop-var:map-literal"},
			value{src: "s", ty: t, wrap: "for s := range \"ab\"", kind: "loop-var:string-literal"})
	case m.Num:
		out = append(out, value{src: "s", ty: t, wrap: "for s := range 1", kind: "loop-var:num"})
	}
	return out
}

var loopContexts = []string{"assign", "element-assign", "field-assign"}

func emitLoopCell(ctx string, T *m.Type, v value, emit func(Case)) {
	ok, why := isAccepted(T, v)
	v2 := v
	v2.pre = nil
	if ctx != "assign" && ctx != "element-assign" && ctx != "field-assign" {
		ctx = "assign" // the other contexts define a function, which cannot stand inside a loop
	}
	body, typeof := cellProgram(ctx, T, v2)
	if v.kind == "loop-var:array-variable" {
		typeof = "" // the array is empty, the body does not run
	}
	var sb strings.Builder
	for _, l := range v.pre {
		sb.WriteString(l + "\n")
	}
	sb.WriteString(v.wrap + "\n")
	for _, l := range strings.Split(strings.TrimSuffix(body, "\n"), "\n") {
		sb.WriteString("    " + l + "\n")
	}
	sb.WriteString("end\n")
	emit(Case{Src: sb.String(), Cell: fmt.Sprintf("%s: %s <- %s %s (%s)", ctx, T, v.kind, v.ty, v.wrap), Accept: ok, Typeof: typeof, Why: why})
}

func emitCell(ctx string, T *m.Type, v value, emit func(Case)) {
	if v.wrap != "" {
		emitLoopCell(ctx, T, v, emit)
		return
	}
	ok, why := isAccepted(T, v)
	src, typeof := cellProgram(ctx, T, v)
	src += useAll(v.pre)
	if typeof != "" {
		// keep the typeof line last
		src = strings.Replace(src, useAll(v.pre), "", 1)
		src = useAll(v.pre) + src
		src = reorderPre(src, v.pre)
	}
	kind := v.kind
	if elementwise(T, v) {
		kind += ":elementwise"
	}
	emit(Case{Src: src, Cell: fmt.Sprintf("%s: %s <- %s %s (%s)", ctx, T, kind, v.ty, v.src), Accept: ok, Typeof: typeof, Why: why})
}

// reorderPre moves the "print helpers" line behind the declarations it uses.
func reorderPre(src string, pre []string) string {
	u := useAll(pre)
	if u == "" {
		return src
	}
	rest := strings.Replace(src, u, "", 1)
	decl := ""
	for _, l := range pre {
		decl += l + "\n"
	}
	rest = strings.Replace(rest, decl, "", 1)
	return decl + u + rest
}

// inference cells: v := <expr>; typeof v
func inferCells(emit func(Case)) {
	add := func(expr, want, why string, pre ...string) {
		src := strings.Join(pre, "\n")
		if src != "" {
			src += "\n"
		}
		emit(Case{Src: src + "v := " + expr + "\nprint \"typeof\"\nprint (typeof v)\n", Cell: "infer: " + expr, Accept: true, Typeof: want, Why: why})
		// the same expression passed directly where any is required
		emit(Case{Src: src + "print \"typeof\"\nprint (typeof (" + expr + "))\n", Cell: "infer-as-any: " + expr, Accept: true, Typeof: want, Why: why})
	}
	for _, t := range typesUpTo(2) {
		if t.K != m.Any {
			add(lit(t), t.String(), "type of a literal")
		}
		if t.K != m.Any { // typeof an any variable reports its dynamic type
			add("s", t.String(), "type of a variable", "s:"+t.String())
		}
	}
	add("[]", "[]any", "[] infers []any")
	add("{}", "{}any", "{} infers {}any")
	add("[[]]", "[][]any", "[[]] infers [][]any")
	add("[1] + []", "[]num", "strictest type of a concatenation with an empty literal")
	add("[] + [1]", "[]num", "strictest type of a concatenation with an empty literal")
	add("[1 \"a\"]", "[]any", "mixed elements")
	add("[[1] [\"a\"]]", "[][]any", "strictest common type of literals")
	add("[{a:1} {b:\"s\"}]", "[]{}any", "strictest common type of literals")
	add("[{a:1} {b:2} {}]", "[]{}num", "empty literal takes the common type")
	add("[[] [1] []]", "[][]num", "empty literal takes the common type")
	add("{a:[1 2 3] b:[]}", "{}[]num", "empty literal takes the common type")
	add("{a:1 b:[2]}", "{}any", "mixed values")
	add("[[1] [2] false]", "[]any", "mixed elements")
	add("[x y]", "[]any", "two variables of different types", "x:[]num", "y:[]string", "print x y")
	add("[x x]", "[][]num", "same type", "x:[]num", "print x")
	add("[1 x]", "[]num", "same type", "x:num", "print x")
	add("[[]] + [[]]", "[][]any", "nested empty literals follow the rules of inferred declarations")
	add("[[]] + [[1]]", "[][]num", "strictest type of a concatenation with a nested empty literal")
	add("[[1]] + [[]]", "[][]num", "strictest type of a concatenation with a nested empty literal")
	add("[{}] + [{}]", "[]{}any", "nested empty literals follow the rules of inferred declarations")
	add("[[]] + [x]", "[][]num", "strictest type of a concatenation with a nested empty literal", "x:[]num", "print x")
	add("([[]])", "[][]any", "nested empty literals follow the rules of inferred declarations")
	add("[[]][:]", "[][]any", "nested empty literals follow the rules of inferred declarations")
	add("[[]] * 2", "[][]any", "nested empty literals follow the rules of inferred declarations")
	add("[[]][0]", "[]any", "nested empty literals follow the rules of inferred declarations")
	add("{k:[]}.k", "[]any", "nested empty literals follow the rules of inferred declarations")
	add("[] * 3", "[]any", "repetition of the empty literal")
	add("[1] * 3", "[]num", "repetition keeps the type")
	add("\"abc\"[0]", "string", "string index")
	add("\"abc\"[1:]", "string", "string slice")
	add("[1 2][0]", "num", "element type")
	add("[1 2][:1]", "[]num", "slice type")
	add("{a:1}.a", "num", "value type")
	add("{a:[1]}[\"a\"]", "[]num", "value type")
	add("1 < 2", "bool", "comparison")
	add("[1] == [2]", "bool", "comparison")
	add("len \"a\"", "num", "call result")
	add("a.([]num)", "[]num", "type assertion", "a:any", "a = [1]")
	add("-2", "num", "unary")
	add("!true", "bool", "unary")
}

// permutation law: the inferred type of a literal does not depend on the order of its elements
func permutationCells(t *rapid.T, emit func(Case)) {
	pools := [][]string{
		{"[1]", "[]", "x", "[z]", "[2 3]"},
		{"y", "{}", "{a:\"s\"}", "{k:\"w\"}"},
		{"[[1]]", "[[]]", "[x]", "[]"},
		{"1", "z", "2.5"},
		{"[1]", "[\"s\"]", "[]", "[true]"},
		{"{a:1}", "{}", "{b:[1]}", "{c:\"s\"}"},
		{"[1]", "1", "[]"},
	}
	pool := pools[rapid.IntRange(0, len(pools)-1).Draw(t, "pool")]
	n := rapid.IntRange(2, 5).Draw(t, "n")
	var els []string
	for i := 0; i < n; i++ {
		els = append(els, rapid.SampledFrom(pool).Draw(t, "el"))
	}
	perm := rapid.Permutation(els).Draw(t, "perm")
	asMap := rapid.Bool().Draw(t, "map")
	build := func(e []string) string {
		pre := "x := [2]\ny := {k:\"v\"}\nz := 5\nprint x y z\n"
		if asMap {
			var ps []string
			for i, s := range e {
				ps = append(ps, string(rune('a'+i))+":"+s)
			}
			return pre + "v := {" + strings.Join(ps, " ") + "}\nprint \"typeof\"\nprint (typeof v)\n"
		}
		return pre + "v := [" + strings.Join(e, " ") + "]\nprint \"typeof\"\nprint (typeof v)\n"
	}
	a, b := build(els), build(perm)
	ta, tb := typeofOf(a), typeofOf(b)
	if ta == "" || tb == "" {
		return
	}
	emit(Case{Src: b, Cell: "permutation of " + strings.Join(els, " "), Accept: true, Typeof: ta, Why: "inference picks the strictest common type, whatever the order of the elements (the same elements in the order " + strings.Join(els, " ") + " infer " + ta + ")"})
}

func typeofOf(src string) string {
	res := rec.Run(src, rec.Opts{Fuel: 5000})
	if res.Out.Class != "ok" {
		return ""
	}
	lines := strings.Split(strings.TrimSuffix(rec.PrintText(res.Trace), "\n"), "\n")
	return lines[len(lines)-1]
}

// operator table
func operatorCells(emit func(Case)) {
	types := typesUpTo(1)
	ops := []string{"+", "-", "*", "/", "%", "<", "<=", ">", ">=", "==", "!=", "and", "or"}
	for _, L := range types {
		for _, R := range types {
			for _, op := range ops {
				ok, res, why := binaryRule(op, L, R)
				src := "l:" + L.String() + "\nr:" + R.String() + "\nv := (l " + op + " r)\nprint \"typeof\"\nprint (typeof v)\n"
				emit(Case{Src: src, Cell: fmt.Sprintf("binary: %s %s %s (variables)", L, op, R), Accept: ok, Typeof: res, Why: why})
				if L.K != m.Any && R.K != m.Any {
					src := "v := (" + lit(L) + " " + op + " " + lit(R) + ")\nprint \"typeof\"\nprint (typeof v)\n"
					emit(Case{Src: src, Cell: fmt.Sprintf("binary: %s %s %s (literals)", L, op, R), Accept: ok, Typeof: res, Why: why})
				}
			}
		}
		// an empty literal as an operand: it stands for a value of the other operand's type if
		// that is an array (for []) or a map (for {}), and matches nothing else
		for _, e := range []struct {
			src string
			k   m.Kind
		}{{"[]", m.Arr}, {"{}", m.Map}, {"([])", m.Arr}, {"[][:]", m.Arr}} {
			for _, op := range ops {
				ok, _, why := false, "", "an empty literal matches only operands of its own kind"
				if L.K == e.k {
					ok, _, why = binaryRule(op, L, L)
				}
				emit(Case{Src: "l:" + L.String() + "\nv := (l " + op + " " + e.src + ")\nprint v\n", Cell: fmt.Sprintf("binary: %s %s empty %s (variable, empty literal)", L, op, e.src), Accept: ok, Why: why})
				if !(op == "*" && L.K == m.Num) { // ([] * n is a repetition)
					emit(Case{Src: "l:" + L.String() + "\nv := (" + e.src + " " + op + " l)\nprint v\n", Cell: fmt.Sprintf("binary: empty %s %s %s (empty literal, variable)", e.src, op, L), Accept: ok, Why: why})
				}
				if L.K != m.Any {
					emit(Case{Src: "v := (" + lit(L) + " " + op + " " + e.src + ")\nprint v\n", Cell: fmt.Sprintf("binary: %s %s empty %s (literal, empty literal)", L, op, e.src), Accept: ok, Why: why})
				}
			}
		}
		// assignment targets (spec.md#assignments: a variable, an indexed array, or a map field): an index
		// into anything else, in particular into a string wherever it sits, is not a target
		for _, sel := range []struct {
			chain string
			via   func(*m.Type) *m.Type // type reached by the chain, nil if the chain does not apply
		}{
			{"", func(t *m.Type) *m.Type { return t }},
			{"[0]", func(t *m.Type) *m.Type {
				if t.K == m.Arr {
					return t.Sub
				}
				return nil
			}},
			{".k", func(t *m.Type) *m.Type {
				if t.K == m.Map {
					return t.Sub
				}
				return nil
			}},
			{"[\"k\"]", func(t *m.Type) *m.Type {
				if t.K == m.Map {
					return t.Sub
				}
				return nil
			}},
		} {
			reached := sel.via(L)
			if reached == nil {
				continue
			}
			for _, ix := range []string{"[0]", "[-1]", "[\"k\"]", ".k"} {
				var elem *m.Type
				switch {
				case reached.K == m.Arr && ix[0] == '[' && ix[1] != '"':
					elem = reached.Sub
				case reached.K == m.Map && (ix[0] == '.' || ix[1] == '"'):
					elem = reached.Sub
				}
				val := "\"x\""
				if elem != nil && elem.K != m.Any {
					val = lit(elem)
				}
				src := "l:" + L.String() + "\nl" + sel.chain + ix + " = " + val + "\nprint l\n"
				emit(Case{Src: src, Cell: fmt.Sprintf("target: l%s%s with l:%s", sel.chain, ix, L), Accept: elem != nil,
					Why: "an assignment target is a variable, an indexed array or a map field; the index of an array is a num, of a map a string"})
			}
		}
		for _, op := range []string{"-", "!"} {
			ok := (op == "-" && L.K == m.Num) || (op == "!" && L.K == m.Bool)
			res := ""
			if ok {
				res = L.String()
			}
			emit(Case{Src: "l:" + L.String() + "\nv := " + op + "l\nprint \"typeof\"\nprint (typeof v)\n", Cell: fmt.Sprintf("unary: %s%s", op, L), Accept: ok, Typeof: res, Why: "- takes num, ! takes bool"})
		}
		// condition, range operand, index, slice, dot, assertion
		emit(Case{Src: "l:" + L.String() + "\nif l\n    print 1\nend\n", Cell: "condition: if " + L.String(), Accept: L.K == m.Bool, Why: "conditions are bool"})
		emit(Case{Src: "l:" + L.String() + "\nwhile l\n    print 1\nend\n", Cell: "condition: while " + L.String(), Accept: L.K == m.Bool, Why: "conditions are bool"})
		rangeOK := L.K == m.Num || L.K == m.Str || L.K == m.Arr || L.K == m.Map
		loopVar := map[m.Kind]string{m.Num: "num", m.Str: "string", m.Map: "string"}[L.K]
		if L.K == m.Arr {
			loopVar = L.Sub.String()
		}
		emit(Case{Src: "l:" + L.String() + "\nt := \"none\"\nfor x := range l\n    t = typeof x\nend\nprint \"typeof\"\nprint t\n", Cell: "range: " + L.String(), Accept: rangeOK, Why: "range takes num, string, array or map"})
		_ = loopVar
		emit(Case{Src: "l:" + L.String() + "\nfor x := range l 5\n    print x\nend\n", Cell: "range: " + L.String() + " 5", Accept: L.K == m.Num, Why: "range with several arguments takes nums"})
		for _, I := range []*m.Type{m.TNum, m.TStr, m.TBool, m.TAny} {
			okIdx := ((L.K == m.Arr || L.K == m.Str) && I.K == m.Num) || (L.K == m.Map && I.K == m.Str)
			res := ""
			if okIdx {
				if L.K == m.Str {
					res = "string"
				} else {
					res = L.Sub.String()
				}
			}
			body := "l:" + L.String() + "\ni:" + I.String() + "\nprint \"typeof\"\nprint (typeof l[i])\n"
			if res == "any" {
				res = ""
			}
			emit(Case{Src: body, Cell: fmt.Sprintf("index: %s[%s]", L, I), Accept: okIdx, Typeof: "", Why: "arrays and strings are indexed by num, maps by string"})
			_ = res
			okSl := (L.K == m.Arr || L.K == m.Str) && I.K == m.Num
			emit(Case{Src: "l:" + L.String() + "\ni:" + I.String() + "\nv := l[i:]\nprint \"typeof\"\nprint (typeof v)\n", Cell: fmt.Sprintf("slice: %s[%s:]", L, I), Accept: okSl, Typeof: map[bool]string{true: L.String(), false: ""}[okSl], Why: "only arrays and strings are sliced, bounds are num"})
		}
		res := ""
		if L.K == m.Map && L.Sub.K != m.Any {
			res = L.Sub.String()
		}
		emit(Case{Src: "l:" + L.String() + "\nl2 := l\nprint l2\nv := l.k\nprint \"typeof\"\nprint (typeof v)\n", Cell: "dot: " + L.String() + ".k", Accept: L.K == m.Map, Typeof: "", Why: "field access takes a map"})
		_ = res
		for _, A := range types {
			ok := L.K == m.Any && A.K != m.Any
			emit(Case{Src: "l:" + L.String() + "\nv := [l.(" + A.String() + ")]\nprint v\n", Cell: fmt.Sprintf("assert: %s.(%s)", L, A), Accept: ok, Why: "only any values can be asserted, and not to any"})
		}
	}
}

func binaryRule(op string, L, R *m.Type) (bool, string, string) {
	same := L.Eq(R)
	switch op {
	case "+":
		if same && (L.K == m.Num || L.K == m.Str || L.K == m.Arr) {
			return true, L.String(), "+ on num, string, array"
		}
	case "-", "/", "%":
		if same && L.K == m.Num {
			return true, "num", "arithmetic"
		}
	case "*":
		if same && L.K == m.Num {
			return true, "num", "arithmetic"
		}
		if L.K == m.Arr && R.K == m.Num {
			return true, L.String(), "array repetition"
		}
	case "<", "<=", ">", ">=":
		if same && (L.K == m.Num || L.K == m.Str) {
			return true, "bool", "comparison of num or string"
		}
	case "==", "!=":
		if same {
			return true, "bool", "equality on operands of the same type"
		}
	case "and", "or":
		if same && L.K == m.Bool {
			return true, "bool", "logical"
		}
	}
	return false, "", "operands must have the same type allowed for the operator"
}

func runCells(t *testing.T, ctx *h.Ctx, gen func(emit func(Case))) {
	shard, n := shardEnv()
	i := 0
	gen(func(c Case) {
		i++
		if i%n != shard {
			return
		}
		fl := checkCase(c)
		nontrivial := !strings.Contains(c.Cell, "identical") && c.Why != "identical types"
		kind := strings.SplitN(c.Cell, ":", 2)[0]
		acc := "rejecting"
		if c.Accept {
			acc = "accepting"
		}
		ctx.Rec.Case(nontrivial, c.Cell, "context:"+kind, "expected:"+acc)
		if nontrivial && ctx.Rec.WantSample() && i%97 == 0 {
			ctx.Rec.Sample(map[string]any{"cell": c.Cell, "accept": c.Accept, "typeof": c.Typeof, "why": c.Why, "src": c.Src})
		}
		ctx.Report(t, fl)
	})
}

func shardEnv() (int, int) {
	var i, n int
	if _, err := fmt.Sscanf(os.Getenv("VERIF_SHARD"), "%d/%d", &i, &n); err != nil || n <= 0 {
		return 0, 1
	}
	return i, n
}

// TestMatrix enumerates the matrix for types up to nesting depth 2 (exhaustive).
func TestMatrix(t *testing.T) {
	if h.ReplayPath() != "" {
		t.Skip("replay run")
	}
	ctx := h.Setup(t, "C04")
	runCells(t, ctx, func(emit func(Case)) {
		assignCells(2, emit)
		inferCells(emit)
		operatorCells(emit)
	})
}

// TestSampled samples depth-3 type pairs and the permutation law.
func TestSampled(t *testing.T) {
	if h.ReplayPath() != "" {
		t.Skip("replay run")
	}
	ctx := h.Setup(t, "C04")
	deep := typesUpTo(3)
	rapid.Check(t, func(t *rapid.T) {
		emit := func(c Case) {
			fl := checkCase(c)
			kind := strings.SplitN(c.Cell, ":", 2)[0]
			if strings.HasPrefix(c.Cell, "permutation") {
				kind = "permutation"
			}
			ctx.Rec.Case(true, c.Cell+c.Src, "context:"+kind)
			if ctx.Rec.WantSample() && kind == "permutation" {
				ctx.Rec.Sample(map[string]any{"cell": c.Cell, "typeof": c.Typeof, "src": c.Src})
			}
			ctx.Report(t, fl)
		}
		if rapid.Bool().Draw(t, "perm") {
			permutationCells(t, emit)
			return
		}
		T := deep[rapid.IntRange(0, len(deep)-1).Draw(t, "T")]
		S := deep[rapid.IntRange(0, len(deep)-1).Draw(t, "S")]
		if rapid.Bool().Draw(t, "relatedT") {
			// the interesting pairs: T is S with some level replaced by any, or one level off
			rel := []*m.Type{S, m.ArrOf(S), m.MapOf(S)}
			if S.Sub != nil {
				rel = append(rel, S.Sub)
			}
			for n := 0; n <= S.Depth(); n++ {
				rel = append(rel, anyVariant(S, n))
			}
			T = rel[rapid.IntRange(0, len(rel)-1).Draw(t, "rel")]
		}
		vals := []value{varOf(S)}
		vals = append(vals, varExprs(S)...)
		if S.K != m.Any {
			vals = append(vals, constOf(S))
			vals = append(vals, constExprs(S)...)
		}
		vals = append(vals, empties...)
		vals = append(vals, loopVars(S)...)
		v := vals[rapid.IntRange(0, len(vals)-1).Draw(t, "value")]
		emitCell(assignContexts[rapid.IntRange(0, len(assignContexts)-1).Draw(t, "ctx")], T, v, emit)
	})
}

func TestReplay(t *testing.T) {
	path := h.ReplayPath()
	if path == "" {
		t.Skip("no replay requested")
	}
	ctx := h.Setup(t, "C04")
	var c Case
	if _, err := h.LoadReplay(path, &c); err != nil {
		t.Fatalf("cannot load replay: %v", err)
	}
	ctx.FinishReplay(t, checkCase(c))
}
