module verif/harness

go 1.23.0

require (
	evylang.dev/evy v0.0.0
	evylang.dev/evy/learn v0.0.0
	pgregory.net/rapid v1.3.0
)

replace evylang.dev/evy => /repo

replace evylang.dev/evy/learn => /repo/learn
