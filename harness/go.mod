module verif/harness

go 1.23.0

require (
	evylang.dev/evy v0.1.207
	evylang.dev/evy/learn v0.0.0
	pgregory.net/rapid v1.3.0
)

require (
	golang.org/x/text v0.21.0 // indirect
	golang.org/x/tools v0.29.0 // indirect
	gopkg.in/yaml.v3 v3.0.1 // indirect
	rsc.io/markdown v0.0.0-20241212154241-6bf72452917f // indirect
)

replace evylang.dev/evy => /repo

replace evylang.dev/evy/learn => /repo/learn
