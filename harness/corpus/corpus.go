// Package corpus loads, at run time, every Evy program found in the repository
// under test: *.evy files and ```evy blocks of docs/*.md (with their output partners).
package corpus

import (
	"io/fs"
	"os"
	"path/filepath"
	"sort"
	"strings"
	"sync"
)

// Prog is one program of the corpus.
type Prog struct {
	Name   string
	Src    string
	Output *string // expected output for doc examples that have an evy:output partner
	Input  *string
}

// Repo returns the root of the repository under test.
func Repo() string {
	if r := os.Getenv("VERIF_REPO"); r != "" {
		return r
	}
	return "/repo"
}

var (
	once  sync.Once
	progs []Prog
)

// All returns the corpus, sorted by name (deterministic).
func All() []Prog {
	once.Do(load)
	return progs
}

// Small returns the corpus programs of at most max bytes.
func Small(max int) []Prog {
	var out []Prog
	for _, p := range All() {
		if len(p.Src) <= max {
			out = append(out, p)
		}
	}
	return out
}

func load() {
	root := Repo()
	filepath.WalkDir(root, func(path string, d fs.DirEntry, err error) error { //nolint:errcheck
		if err != nil {
			return nil
		}
		if d.IsDir() {
			n := d.Name()
			if n == ".git" || n == "node_modules" || n == "out" {
				return filepath.SkipDir
			}
			return nil
		}
		if strings.HasSuffix(path, ".evy") {
			b, err := os.ReadFile(path)
			if err == nil {
				rel, _ := filepath.Rel(root, path)
				progs = append(progs, Prog{Name: rel, Src: string(b)})
			}
		}
		return nil
	})
	for _, doc := range []string{"docs/spec.md", "docs/builtins.md", "docs/syntax-by-example.md", "docs/usage.md"} {
		b, err := os.ReadFile(filepath.Join(root, doc))
		if err != nil {
			continue
		}
		progs = append(progs, docBlocks(doc, string(b))...)
	}
	sort.SliceStable(progs, func(i, j int) bool { return progs[i].Name < progs[j].Name })
}

// docBlocks extracts ```evy fenced blocks; a directly following ```evy:input /
// ```evy:output block (before the next ```evy block) is attached to it.
func docBlocks(name, md string) []Prog {
	var out []Prog
	lines := strings.Split(md, "\n")
	n := 0
	for i := 0; i < len(lines); i++ {
		l := strings.TrimSpace(lines[i])
		if !strings.HasPrefix(l, "```") || l == "```" {
			continue
		}
		tag := strings.TrimPrefix(l, "```")
		var body []string
		j := i + 1
		for ; j < len(lines) && strings.TrimSpace(lines[j]) != "```"; j++ {
			body = append(body, lines[j])
		}
		text := strings.Join(body, "\n") + "\n"
		switch tag {
		case "evy":
			n++
			out = append(out, Prog{Name: name + "#" + itoa(n), Src: text})
		case "evy:output":
			if len(out) > 0 && out[len(out)-1].Output == nil {
				t := text
				out[len(out)-1].Output = &t
			}
		case "evy:input":
			if len(out) > 0 && out[len(out)-1].Input == nil {
				t := text
				out[len(out)-1].Input = &t
			}
		}
		i = j
	}
	return out
}

func itoa(n int) string {
	if n == 0 {
		return "0"
	}
	s := ""
	for n > 0 {
		s = string(rune('0'+n%10)) + s
		n /= 10
	}
	return s
}
