// Package p20 decides C20: sealed answers round-trip and answer verification is exact.
package p20

import (
	"encoding/base64"
	"fmt"
	"sort"
	"strings"
	"sync"
	"testing"

	"evylang.dev/evy/learn/pkg/learn"
	"pgregory.net/rapid"
	"verif/harness/h"
	"verif/harness/rec"
)

// CryptoCase is one answer sealed with one key (keys and ciphertext are stored: crypto randomness is not seeded).
type CryptoCase struct {
	Answer  string `json:"answer"`
	Public  string `json:"public_key"`
	Private string `json:"private_key"`
	Other   string `json:"other_private_key"`
	Sealed  string `json:"sealed,omitempty"`   // if set: replay this exact ciphertext
	Tamper  string `json:"tampered,omitempty"` // if set: this exact tampered text
}

// QuestionCase is a generated multiple/single choice question.
type QuestionCase struct {
	Frontmatter string   `json:"frontmatter"`
	Markdown    string   `json:"markdown"`
	Programs    []string `json:"choice_programs"`
	QuestionOut string   `json:"question_output"`
	Marked      []int    `json:"marked_positions"`
	Sealed      bool     `json:"sealed"`
	Padded      bool     `json:"padded,omitempty"` // the answer text has surrounding white space (quoted padding or a YAML block scalar)
	Public      string   `json:"public_key,omitempty"`
	Private     string   `json:"private_key,omitempty"`
}

// Case is either kind.
type Case struct {
	Crypto   *CryptoCase   `json:"crypto,omitempty"`
	Question *QuestionCase `json:"question,omitempty"`
}

var (
	keyOnce sync.Once
	keys    []learn.KeyPair
)

func keyPairs() []learn.KeyPair {
	keyOnce.Do(func() {
		for _, bits := range []int{1024, 1024, 2048, 1028, 1030, 2044} { // also moduli whose bit length is not a multiple of 8
			kp, err := learn.Keygen(bits)
			if err != nil {
				panic(err)
			}
			keys = append(keys, kp)
		}
	})
	return keys
}

func safeDecrypt(priv, sealed string) (out string, err error, crash string) {
	defer func() {
		if r := recover(); r != nil {
			crash = fmt.Sprint(r)
		}
	}()
	out, err = learn.Decrypt(priv, sealed)
	return out, err, ""
}

type tamperStats struct{ tried, rejected, sameAnswer, regions int }

// checkCrypto: round trip, every single-byte substitution, every truncation, base64 edits, wrong key.
func checkCrypto(c *CryptoCase, st *tamperStats) *h.Failure {
	mk := func(kind, detail string) *h.Failure {
		return &h.Failure{Kind: kind, Detail: detail, Src: fmt.Sprintf("answer=%q", c.Answer), Case: Case{Crypto: c}, Callsite: "crypto"}
	}
	sealed := c.Sealed
	if sealed == "" {
		var err error
		sealed, err = learn.Encrypt(c.Public, c.Answer)
		if err != nil {
			return mk("encrypt-failed", err.Error())
		}
	}
	try := func(text, what string) *h.Failure {
		st.tried++
		got, err, crash := safeDecrypt(c.Private, text)
		switch {
		case crash != "":
			f := *c
			f.Sealed, f.Tamper = sealed, text
			return &h.Failure{Kind: "gopanic", Detail: what + ": Decrypt crashed: " + crash, Src: fmt.Sprintf("answer=%q", c.Answer), Case: Case{Crypto: &f}, Callsite: "crypto"}
		case err != nil:
			st.rejected++
		case got == c.Answer:
			st.sameAnswer++
		default:
			f := *c
			f.Sealed, f.Tamper = sealed, text
			return &h.Failure{Kind: "different-answer", Detail: fmt.Sprintf("%s: unsealing yields %q, the sealed answer was %q", what, got, c.Answer), Src: fmt.Sprintf("answer=%q", c.Answer), Case: Case{Crypto: &f}, Callsite: "crypto"}
		}
		return nil
	}
	if c.Tamper != "" {
		return try(c.Tamper, "stored tampered value")
	}
	got, err, crash := safeDecrypt(c.Private, sealed)
	if crash != "" || err != nil || got != c.Answer {
		return mk("round-trip", fmt.Sprintf("Decrypt(Encrypt(a)) = %q, %v %s; a = %q", got, err, crash, c.Answer))
	}
	raw, err := base64.StdEncoding.DecodeString(sealed)
	if err != nil {
		return mk("not-base64", err.Error())
	}
	// every single-byte substitution of the envelope (bit flip and two other values)
	for i := range raw {
		for _, x := range []byte{0x01, 0x80, 0xff} {
			t := append([]byte(nil), raw...)
			t[i] ^= x
			if fl := try(base64.StdEncoding.EncodeToString(t), fmt.Sprintf("byte %d of %d xor %#x", i, len(raw), x)); fl != nil {
				return fl
			}
		}
	}
	st.regions += 4 // version byte, length prefix, RSA block, GCM text+tag are all covered by the complete sweep
	// every truncation length
	for n := 0; n < len(raw); n++ {
		if fl := try(base64.StdEncoding.EncodeToString(raw[:n]), fmt.Sprintf("truncated to %d of %d bytes", n, len(raw))); fl != nil {
			return fl
		}
	}
	// appended bytes
	for _, extra := range [][]byte{{0}, {1, 2, 3}, raw[:8]} {
		if fl := try(base64.StdEncoding.EncodeToString(append(append([]byte(nil), raw...), extra...)), "bytes appended"); fl != nil {
			return fl
		}
	}
	// single character edits and deletions of the base64 text (a sample of positions incl. the last quantum)
	pos := []int{0, 1, 2, 3, len(sealed) / 2, len(sealed) - 4, len(sealed) - 3, len(sealed) - 2, len(sealed) - 1}
	for _, p := range pos {
		if p < 0 || p >= len(sealed) {
			continue
		}
		for _, ch := range []byte{'A', 'z', '/', '='} {
			if sealed[p] == ch {
				continue
			}
			if fl := try(sealed[:p]+string(ch)+sealed[p+1:], fmt.Sprintf("base64 character %d replaced by %q", p, ch)); fl != nil {
				return fl
			}
		}
		if fl := try(sealed[:p]+sealed[p+1:], fmt.Sprintf("base64 character %d deleted", p)); fl != nil {
			return fl
		}
	}
	// a foreign key
	st.tried++
	got, err, crash = safeDecrypt(c.Other, sealed)
	if crash != "" {
		return mk("gopanic", "Decrypt with another key crashed: "+crash)
	}
	if err == nil && got != c.Answer {
		return mk("different-answer", fmt.Sprintf("unsealing with another key yields %q instead of an error", got))
	}
	return nil
}

var outputs = []string{"hi", "hi ", "Hi", "50% done", "hi\nhi", "1", "%v%d", "ho", "1 2", "", "true", "100%", "50%% done", "a\\b"}

func programFor(out string) string {
	var sb strings.Builder
	for _, line := range strings.Split(out, "\n") {
		sb.WriteString("print " + quote(line) + "\n")
	}
	return sb.String()
}

func quote(s string) string {
	return `"` + strings.ReplaceAll(strings.ReplaceAll(s, `\`, `\\`), `"`, `\"`) + `"`
}

func checkQuestion(q *QuestionCase) *h.Failure {
	mk := func(kind, detail string) *h.Failure {
		return &h.Failure{Kind: kind, Detail: detail, Src: q.Frontmatter + "---\n" + q.Markdown, Case: Case{Question: q}, Callsite: "question"}
	}
	// the harness's own view: run each choice program through the evaluator
	var correct []int
	for i, p := range q.Programs {
		res := rec.Run(p, rec.Opts{})
		if res.Out.Class != "ok" {
			return nil
		}
		if rec.PrintText(res.Trace) == q.QuestionOut {
			correct = append(correct, i)
		}
	}
	want := fmt.Sprint(correct) == fmt.Sprint(q.Marked)
	var verr error
	var crash, sealDiff string
	func() {
		defer func() {
			if r := recover(); r != nil {
				crash = fmt.Sprint(r)
			}
		}()
		opts := []learn.Option{learn.WithRawMD(q.Frontmatter, q.Markdown)}
		if q.Sealed {
			opts = append(opts, learn.WithPrivateKey(q.Private))
		}
		m, err := learn.NewQuestionModel("course1/unit1/exercise1/question1.md", opts...)
		if err != nil {
			verr = fmt.Errorf("model: %w", err)
			return
		}
		orig := ""
		if m.Frontmatter != nil {
			orig = m.Frontmatter.Answer
		}
		if q.Sealed {
			if err := m.Seal(q.Public); err != nil {
				verr = fmt.Errorf("seal: %w", err)
				return
			}
			if !m.IsSealed() {
				verr = fmt.Errorf("seal: model not sealed after Seal")
				return
			}
		}
		verr = m.Verify()
		if q.Sealed && verr == nil {
			if err := m.Unseal(); err != nil || m.IsSealed() {
				verr = fmt.Errorf("unseal after seal failed: %v", err)
				crash = "unseal"
			} else if m.Frontmatter != nil && m.Frontmatter.Answer != orig {
				sealDiff = fmt.Sprintf("the answer text was %q before sealing and is %q after unsealing", orig, m.Frontmatter.Answer)
			}
		}
	}()
	if crash != "" {
		return mk("gopanic", "verification crashed: "+crash+" "+fmt.Sprint(verr))
	}
	if sealDiff != "" {
		return mk("seal-round-trip", "sealing and unsealing a question changes its answer: "+sealDiff)
	}
	if strings.HasPrefix(fmt.Sprint(verr), "model:") {
		return mk("model-rejected", "a well-formed question was rejected: "+verr.Error())
	}
	if q.Padded {
		return nil // whether a padded answer text is a valid answer is not documented: only crashes and the seal round trip are checked
	}
	if (verr == nil) != want {
		if want {
			return mk("rejected-correct-marking", fmt.Sprintf("marked %v are exactly the choices whose output equals the question's output %v, but Verify fails: %v", q.Marked, correct, verr))
		}
		return mk("accepted-wrong-marking", fmt.Sprintf("marked positions %v, choices whose output equals the question's output %v: Verify accepts", q.Marked, correct))
	}
	return nil
}

func checkCase(c Case) *h.Failure {
	if c.Crypto != nil {
		return checkCrypto(c.Crypto, &tamperStats{})
	}
	if c.Question != nil {
		return checkQuestion(c.Question)
	}
	return nil
}

func TestCrypto(t *testing.T) {
	if h.ReplayPath() != "" {
		t.Skip("replay run")
	}
	ctx := h.Setup(t, "C20")
	ks := keyPairs()
	rapid.Check(t, func(t *rapid.T) {
		var answer string
		switch rapid.IntRange(0, 5).Draw(t, "answerkind") {
		case 0:
			answer = rapid.SampledFrom([]string{"a", "c", "a, c", "b,d", "x", "hello world", "", " "}).Draw(t, "short")
		case 1:
			answer = rapid.String().Draw(t, "unicode")
		case 2:
			answer = string(rapid.SliceOfN(rapid.Byte(), 0, 64).Draw(t, "bytes"))
		case 3:
			answer = strings.Repeat(rapid.SampledFrom([]string{"ab", "ä", "\n", ","}).Draw(t, "unit"), rapid.IntRange(100, 2048).Draw(t, "reps"))
		default:
			answer = rapid.StringMatching(`[a-f](, ?[a-f]){0,5}`).Draw(t, "letters")
		}
		ki := rapid.IntRange(0, len(ks)-1).Draw(t, "key")
		c := &CryptoCase{Answer: answer, Public: ks[ki].Public, Private: ks[ki].Private, Other: ks[(ki+1)%len(ks)].Private}
		st := &tamperStats{}
		fl := checkCrypto(c, st)
		ctx.Rec.Case(true, fmt.Sprintf("%d|%x", ki, answer), "crypto", fmt.Sprintf("key:%d", ki))
		ctx.Rec.Add("tampered_values_tried", st.tried)
		ctx.Rec.Add("tampered_rejected", st.rejected)
		ctx.Rec.Add("tampered_still_original", st.sameAnswer)
		if ctx.Rec.WantSample() && len(answer) < 40 {
			ctx.Rec.Sample(map[string]any{"kind": "crypto", "answer": answer, "tampered_values": st.tried, "rejected": st.rejected, "still_original": st.sameAnswer})
		}
		ctx.Report(t, fl)
	})
}

func TestQuestions(t *testing.T) {
	if h.ReplayPath() != "" {
		t.Skip("replay run")
	}
	ctx := h.Setup(t, "C20")
	ks := keyPairs()
	rapid.Check(t, func(t *rapid.T) {
		n := rapid.IntRange(2, 6).Draw(t, "nchoices")
		qOut := rapid.SampledFrom(outputs[:8]).Draw(t, "qout")
		q := &QuestionCase{QuestionOut: qOut + "\n"}
		var md strings.Builder
		md.WriteString("## Question\n\nWhich program prints this?\n\n```\n" + qOut + "\n```\n\nChoose:\n\n")
		var correct []int
		for i := 0; i < n; i++ {
			out := qOut
			if rapid.IntRange(0, 2).Draw(t, "same") != 0 {
				out = rapid.SampledFrom(outputs).Draw(t, "out")
			}
			p := programFor(out)
			q.Programs = append(q.Programs, p)
			if out == qOut {
				correct = append(correct, i)
			}
			md.WriteString("- ```evy\n  " + strings.ReplaceAll(strings.TrimSuffix(p, "\n"), "\n", "\n  ") + "\n  ```\n")
		}
		q.Markdown = md.String()
		// marked set: the correct one, or a perturbation of it
		marked := map[int]bool{}
		for _, i := range correct {
			marked[i] = true
		}
		switch rapid.IntRange(0, 5).Draw(t, "marking") {
		case 0, 1: // exactly right
		case 2: // one extra inside the choices
			marked[rapid.IntRange(0, n-1).Draw(t, "extra")] = true
		case 3: // one missing
			if len(correct) > 0 {
				delete(marked, correct[rapid.IntRange(0, len(correct)-1).Draw(t, "missing")])
			}
		case 4: // a letter beyond the choices
			marked[n+rapid.IntRange(0, 3).Draw(t, "beyond")] = true
		default: // arbitrary subset
			marked = map[int]bool{}
			for i := 0; i < n; i++ {
				if rapid.Bool().Draw(t, "mark") {
					marked[i] = true
				}
			}
		}
		if len(marked) == 0 {
			marked[rapid.IntRange(0, n-1).Draw(t, "atleastone")] = true
		}
		for i := range marked {
			q.Marked = append(q.Marked, i)
		}
		sort.Ints(q.Marked)
		var letters []string
		order := rapid.Permutation(q.Marked).Draw(t, "order")
		for _, i := range order {
			letters = append(letters, string(rune('a'+i)))
		}
		if rapid.Bool().Draw(t, "dup") && len(letters) > 0 {
			letters = append(letters, letters[0])
		}
		sep := rapid.SampledFrom([]string{", ", ",", " , ", ",  "}).Draw(t, "sep")
		atype := "multiple-choice"
		if len(letters) == 1 && rapid.Bool().Draw(t, "single") {
			atype = "single-choice"
		}
		// the answer text as YAML gives it to the model: plain, padded inside quotes, or a block scalar (which ends in a newline)
		ans := strings.Join(letters, sep)
		switch rapid.IntRange(0, 4).Draw(t, "answerform") {
		case 0:
			q.Padded = true
			q.Frontmatter = "type: question\ndifficulty: easy\nanswer-type: " + atype + "\nanswer: \" " + ans + "  \"\n"
		case 1:
			q.Padded = true
			q.Frontmatter = "type: question\ndifficulty: easy\nanswer-type: " + atype + "\nanswer: |\n  " + ans + "\n"
		default:
			q.Frontmatter = "type: question\ndifficulty: easy\nanswer-type: " + atype + "\nanswer: \"" + ans + "\"\n"
		}
		if rapid.Bool().Draw(t, "sealed") {
			ki := rapid.IntRange(0, len(ks)-1).Draw(t, "key")
			q.Sealed, q.Public, q.Private = true, ks[ki].Public, ks[ki].Private
		}
		fl := checkQuestion(q)
		beyond := false
		for _, i := range q.Marked {
			beyond = beyond || i >= n
		}
		nontrivial := len(correct) > 0 && len(correct) < n
		classes := []string{"question", fmt.Sprintf("sealed:%v", q.Sealed)}
		if beyond {
			classes = append(classes, "marked-letter-beyond-choices")
		}
		if fmt.Sprint(correct) == fmt.Sprint(q.Marked) {
			classes = append(classes, "marking:exact")
		} else {
			classes = append(classes, "marking:wrong")
		}
		ctx.Rec.Case(nontrivial, q.Frontmatter+q.Markdown, classes...)
		if nontrivial && ctx.Rec.WantSample() {
			ctx.Rec.Sample(map[string]any{"kind": "question", "frontmatter": q.Frontmatter, "markdown": q.Markdown, "marked": q.Marked, "matching": correct})
		}
		ctx.Report(t, fl)
	})
}

func TestReplay(t *testing.T) {
	path := h.ReplayPath()
	if path == "" {
		t.Skip("no replay requested")
	}
	ctx := h.Setup(t, "C20")
	var c Case
	if _, err := h.LoadReplay(path, &c); err != nil {
		t.Fatalf("cannot load replay: %v", err)
	}
	ctx.FinishReplay(t, checkCase(c))
}
