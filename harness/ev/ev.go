// Package ev collects per-shard evidence counters and writes them for the driver to merge.
package ev

import (
	"encoding/binary"
	"encoding/json"
	"hash/fnv"
	"os"
	"sort"
	"sync"
)

// Recorder accumulates what one shard of one check actually explored.
type Recorder struct {
	mu          sync.Mutex
	Evaluations int            `json:"evaluations"`
	Nontrivial  int            `json:"nontrivial"`
	Classes     map[string]int `json:"classes"`
	Known       map[string]int `json:"known_hits"`
	Excluded    map[string]int `json:"excluded_by_construction"`
	Samples     []any          `json:"samples"`
	Extra       map[string]int `json:"extra"`
	Notes       []string       `json:"notes,omitempty"`
	hashes      map[uint64]struct{}
	maxSamples  int
}

// New returns an empty recorder.
func New() *Recorder {
	return &Recorder{
		Classes: map[string]int{}, Known: map[string]int{}, Excluded: map[string]int{},
		Extra: map[string]int{}, hashes: map[uint64]struct{}{}, maxSamples: 6,
	}
}

// Hash is the 64-bit FNV-1a hash used for distinctness.
func Hash(s string) uint64 {
	h := fnv.New64a()
	h.Write([]byte(s)) //nolint:errcheck
	return h.Sum64()
}

// Case records one executed case. key identifies the case for distinctness
// and is only counted if nontrivial is true.
func (r *Recorder) Case(nontrivial bool, key string, classes ...string) {
	r.mu.Lock()
	defer r.mu.Unlock()
	r.Evaluations++
	if nontrivial {
		r.Nontrivial++
		r.hashes[Hash(key)] = struct{}{}
	}
	for _, c := range classes {
		r.Classes[c]++
	}
}

// Class bumps a histogram class without counting a case.
func (r *Recorder) Class(c string) { r.mu.Lock(); r.Classes[c]++; r.mu.Unlock() }

// Add bumps a named extra counter.
func (r *Recorder) Add(name string, n int) { r.mu.Lock(); r.Extra[name] += n; r.mu.Unlock() }

// KnownHit records a failure that matched an open known finding.
func (r *Recorder) KnownHit(id string) { r.mu.Lock(); r.Known[id]++; r.mu.Unlock() }

// Exclude records a case region avoided by construction because of an open finding.
func (r *Recorder) Exclude(id string) { r.mu.Lock(); r.Excluded[id]++; r.mu.Unlock() }

// Sample keeps up to a handful of cases verbatim.
func (r *Recorder) Sample(v any) {
	r.mu.Lock()
	defer r.mu.Unlock()
	if len(r.Samples) < r.maxSamples {
		r.Samples = append(r.Samples, v)
	}
}

// WantSample reports whether another sample would be kept.
func (r *Recorder) WantSample() bool {
	r.mu.Lock()
	defer r.mu.Unlock()
	return len(r.Samples) < r.maxSamples
}

// Note attaches a free-text note to the shard evidence.
func (r *Recorder) Note(s string) { r.mu.Lock(); r.Notes = append(r.Notes, s); r.mu.Unlock() }

// Flush writes <prefix>.ev.json and <prefix>.hashes where prefix is $VERIF_OUT.
func (r *Recorder) Flush() {
	prefix := os.Getenv("VERIF_OUT")
	if prefix == "" {
		return
	}
	r.mu.Lock()
	defer r.mu.Unlock()
	b, _ := json.Marshal(r)
	os.WriteFile(prefix+".ev.json", b, 0o644) //nolint:errcheck
	hs := make([]uint64, 0, len(r.hashes))
	for h := range r.hashes {
		hs = append(hs, h)
	}
	sort.Slice(hs, func(i, j int) bool { return hs[i] < hs[j] })
	buf := make([]byte, 8*len(hs))
	for i, h := range hs {
		binary.LittleEndian.PutUint64(buf[8*i:], h)
	}
	os.WriteFile(prefix+".hashes", buf, 0o644) //nolint:errcheck
}
