package p18

import (
	"bytes"
	"context"
	"fmt"
	"os"
	"os/exec"
	"path/filepath"
	"strings"
	"testing"
	"time"

	"pgregory.net/rapid"
	"verif/harness/corpus"
	"verif/harness/eng"
	"verif/harness/fmtx"
	"verif/harness/gen"
	"verif/harness/h"
	"verif/harness/m"
)

// TestMulti: `evy fmt` with several file arguments. -c exits zero exactly when every
// argument is already in formatted form and modifies nothing; -w leaves every file either
// as it was or completely formatted, keeps modes, leaves files that do not parse untouched
// and then exits non-zero; with status 0 every file is formatted. (Whether files after a
// failing one are still processed is not stated anywhere and not asserted.)

// MultiFile is one argument of a multi-file invocation.
type MultiFile struct {
	Name    string `json:"name"`
	Content string `json:"content"`
	Mode    uint32 `json:"mode"`
}

func exec1(dir string, args []string) (int, string, bool) {
	ctx, cancel := context.WithTimeout(context.Background(), 120*time.Second)
	defer cancel()
	cmd := exec.CommandContext(ctx, evyBin(), args...)
	cmd.Dir = dir
	var buf bytes.Buffer
	cmd.Stdout, cmd.Stderr = &buf, &buf
	err := cmd.Run()
	if ctx.Err() != nil {
		return 0, "", false
	}
	code := 0
	if ee, ok := err.(*exec.ExitError); ok {
		code = ee.ExitCode()
	} else if err != nil {
		return 0, "", false
	}
	return code, buf.String(), true
}

func checkMulti(c Case) *h.Failure {
	mk := func(kind, detail string) *h.Failure {
		return &h.Failure{Kind: kind, Detail: detail, Src: c.Content, Case: c, Callsite: "multi-file"}
	}
	if _, err := os.Stat(evyBin()); err != nil {
		return nil
	}
	dir, _ := os.MkdirTemp("", "verif-c18m-")
	defer os.RemoveAll(dir)
	type exp struct {
		formatted string
		accepted  bool
	}
	exps := make([]exp, len(c.Files))
	var names []string
	write := func() {
		for _, f := range c.Files {
			p := filepath.Join(dir, f.Name)
			os.Remove(p)
			os.WriteFile(p, []byte(f.Content), 0o600) //nolint:errcheck
			os.Chmod(p, os.FileMode(f.Mode))          //nolint:errcheck
		}
	}
	allFormatted, anyRejected := true, false
	for i, f := range c.Files {
		out, _, ok, _ := fmtx.Format(f.Content)
		exps[i] = exp{out, ok}
		names = append(names, f.Name)
		allFormatted = allFormatted && ok && out == f.Content
		anyRejected = anyRejected || !ok
	}
	describe := func() string {
		var sb strings.Builder
		for i, f := range c.Files {
			sb.WriteString(fmt.Sprintf("%s(parses=%v formatted=%v) ", f.Name, exps[i].accepted, exps[i].accepted && exps[i].formatted == f.Content))
		}
		return sb.String()
	}
	// -c
	write()
	before := make([]fileState, len(c.Files))
	for i, f := range c.Files {
		before[i] = stat(filepath.Join(dir, f.Name))
	}
	code, out, ok := exec1(dir, append([]string{"fmt", "-c"}, names...))
	if !ok {
		return nil
	}
	if (code == 0) != allFormatted {
		return mk("check-status", fmt.Sprintf("evy fmt -c %s exits %d; files: %s; output: %s", strings.Join(names, " "), code, describe(), out))
	}
	for i, f := range c.Files {
		after := stat(filepath.Join(dir, f.Name))
		if after.content != before[i].content || after.mode != before[i].mode || !after.mtime.Equal(before[i].mtime) {
			return mk("check-modifies", "evy fmt -c changed "+f.Name)
		}
	}
	// -w
	code, out, ok = exec1(dir, append([]string{"fmt", "-w"}, names...))
	if !ok {
		return nil
	}
	if anyRejected && code == 0 {
		return mk("failure-not-reported", fmt.Sprintf("evy fmt -w %s exits 0 although a file does not parse; files: %s", strings.Join(names, " "), describe()))
	}
	for i, f := range c.Files {
		after := stat(filepath.Join(dir, f.Name))
		switch {
		case !after.exists:
			return mk("file-lost", f.Name+" no longer exists")
		case !exps[i].accepted && after.content != f.Content:
			return mk("unparsable-touched", f.Name+" does not parse but was changed")
		case after.content != f.Content && after.content != exps[i].formatted:
			return mk("file-damaged", fmt.Sprintf("%s holds neither its original nor the formatted text: %q", f.Name, after.content))
		case code == 0 && after.content != exps[i].formatted:
			return mk("wrong-content", fmt.Sprintf("evy fmt -w exits 0 but %s is not formatted; output: %s", f.Name, out))
		case after.mode != os.FileMode(f.Mode):
			return mk("mode-changed", fmt.Sprintf("%s: permission bits changed from %04o to %04o", f.Name, f.Mode, after.mode))
		}
	}
	if code == 0 {
		// what -w has written is in formatted form: -c accepts all of it
		if code2, out2, ok := exec1(dir, append([]string{"fmt", "-c"}, names...)); ok && code2 != 0 {
			return mk("written-text-rejected", fmt.Sprintf("evy fmt -c rejects the files that evy fmt -w has just written (exit %d): %s", code2, out2))
		}
	}
	return nil
}

func TestMulti(t *testing.T) {
	if h.ReplayPath() != "" {
		t.Skip("replay run")
	}
	ctx := h.Setup(t, "C18")
	all := corpus.Small(800)
	rapid.Check(t, func(t *rapid.T) {
		n := rapid.IntRange(2, 4).Draw(t, "nfiles")
		c := Case{}
		var kinds []string
		for i := 0; i < n; i++ {
			kind := rapid.SampledFrom([]string{"formatted", "unformatted", "unformatted", "rejected", "no-final-newline", "model", "model", "model", "model"}).Draw(t, "kind")
			src := all[rapid.IntRange(0, len(all)-1).Draw(t, "prog")].Src
			f := MultiFile{Name: fmt.Sprintf("f%d.evy", i), Mode: rapid.SampledFrom([]uint32{0o644, 0o600, 0o755, 0o664}).Draw(t, "mode")}
			switch kind {
			case "formatted":
				f.Content, _, _, _ = fmtx.Format(src)
				if f.Content == "" {
					f.Content = "print 1\n"
				}
			case "unformatted":
				f.Content = "print   1   2\n" + src
			case "model":
				cfg := gen.Default
				cfg.ExprDepth, cfg.BlockDepth, cfg.MaxStmts = 2, 2, 4
				f.Content, _ = m.Render(gen.New(t, cfg).Program(), eng.RapidLayout{T: t})
			case "rejected":
				f.Content = rapid.SampledFrom([]string{"print x\n", "x := \n", "func\n", "if true\n"}).Draw(t, "bad")
			default:
				f.Content = "x := 1\nprint x"
			}
			kinds = append(kinds, kind)
			c.Files = append(c.Files, f)
		}
		fl := checkMulti(c)
		ctx.Rec.Case(true, fmt.Sprintf("%v", c.Files), "multi:"+strings.Join(kinds, ","), "file:multi")
		if ctx.Rec.WantSample() {
			ctx.Rec.Sample(map[string]any{"multi_file_kinds": kinds})
		}
		ctx.Report(t, fl)
	})
}
