// Package p18 decides C18: evy fmt never damages a source file and --check tells the truth.
package p18

import (
	"bytes"
	"context"
	"fmt"
	"os"
	"os/exec"
	"path/filepath"
	"regexp"
	"strings"
	"testing"
	"time"

	"pgregory.net/rapid"
	"verif/harness/corpus"
	"verif/harness/eng"
	"verif/harness/fmtx"
	"verif/harness/gen"
	"verif/harness/h"
	"verif/harness/m"
)

// Case is one source file with a permission mode and (for replays) one fault.
type Case struct {
	Content string      `json:"content"`
	Mode    uint32      `json:"mode"`
	Fault   string      `json:"fault,omitempty"` // strace inject expression, e.g. "write:error=ENOSPC:when=1" or "renameat:signal=KILL:when=1"; "" = all faults
	Check   bool        `json:"check_only,omitempty"`
	Files   []MultiFile `json:"files,omitempty"` // several file arguments in one invocation (TestMulti)
}

var traced = "openat,read,write,close,renameat,renameat2,rename,fchmod,fchmodat,chmod,unlinkat,fsync,pwrite64,ftruncate"

type runResult struct {
	exit     int
	killed   bool
	out      string
	log      []string
	injected string // the log line that carries the injected fault, if any
}

func evyBin() string { return filepath.Join(os.Getenv("VERIF_BUILD"), "evy") }

func run(dir string, args []string, inject string, stdin string) (runResult, error) {
	var res runResult
	logf := filepath.Join(dir, "..", filepath.Base(dir)+".strace")
	os.Remove(logf)
	sargs := []string{"-f", "-y", "-o", logf, "-e", "trace=" + traced}
	if inject != "" {
		sargs = append(sargs, "-e", "inject="+inject)
	}
	sargs = append(sargs, evyBin())
	sargs = append(sargs, args...)
	ctx, cancel := context.WithTimeout(context.Background(), 60*time.Second)
	defer cancel()
	cmd := exec.CommandContext(ctx, "strace", sargs...)
	cmd.Dir = dir
	if stdin != "" {
		cmd.Stdin = strings.NewReader(stdin)
	}
	var buf bytes.Buffer
	cmd.Stdout, cmd.Stderr = &buf, &buf
	err := cmd.Run()
	if ctx.Err() == context.DeadlineExceeded {
		return res, fmt.Errorf("strace run timed out")
	}
	res.out = buf.String()
	if ee, ok := err.(*exec.ExitError); ok {
		res.exit = ee.ExitCode()
	} else if err != nil {
		return res, err
	}
	b, _ := os.ReadFile(logf)
	os.Remove(logf)
	res.log = mergeUnfinished(strings.Split(string(b), "\n"))
	for i, l := range res.log {
		l = cwdRE.ReplaceAllString(l, "AT_FDCWD")
		res.log[i] = l
		if strings.Contains(l, "(INJECTED)") {
			res.injected = l
		}
		if strings.Contains(l, "+++ killed by SIGKILL") {
			res.killed = true
		}
	}
	return res, nil
}

var (
	unfinishedRE = regexp.MustCompile(`^(\d+)\s+(.*) <unfinished \.\.\.>$`)
	resumedRE    = regexp.MustCompile(`^(\d+)\s+<\.\.\. \w+ resumed>(.*)$`)
)

// mergeUnfinished joins the two halves of a call that strace -f printed apart because
// another thread's call came in between ("<unfinished ...>" / "<... name resumed>"):
// the joined line stands where the call completed.
func mergeUnfinished(lines []string) []string {
	pending := map[string]string{}
	var out []string
	for _, l := range lines {
		if mm := unfinishedRE.FindStringSubmatch(l); mm != nil {
			pending[mm[1]] = mm[1] + " " + mm[2]
			continue
		}
		if mm := resumedRE.FindStringSubmatch(l); mm != nil {
			if head, ok := pending[mm[1]]; ok {
				delete(pending, mm[1])
				out = append(out, head+mm[2])
				continue
			}
		}
		out = append(out, l)
	}
	for _, head := range pending { // a call that never came back (the process was killed inside it)
		out = append(out, head+" <unfinished ...>")
	}
	return out
}

var cwdRE = regexp.MustCompile(`AT_FDCWD<[^>]*>`)

var renameOK = regexp.MustCompile(`renameat2?\(.*\)\s+= 0$`)

// renamedBefore reports whether the rename onto the target completed before the fault or kill.
func renamedBefore(res runResult, target string) bool {
	for _, l := range res.log {
		// a failed call that the program may ignore (e.g. closing the file after reading it)
		// does not end the run: look at the whole log; a killed process logs nothing further
		if strings.Contains(l, "\""+target+"\"") || strings.Contains(l, filepath.Base(target)+"\")") {
			if renameOK.MatchString(strings.TrimSpace(l)) && strings.Contains(l, "rename") {
				return true
			}
		}
	}
	return false
}

type fileState struct {
	content string
	mode    os.FileMode
	mtime   time.Time
	exists  bool
}

func stat(path string) fileState {
	fi, err := os.Stat(path)
	if err != nil {
		return fileState{}
	}
	b, _ := os.ReadFile(path)
	return fileState{content: string(b), mode: fi.Mode().Perm(), mtime: fi.ModTime(), exists: true}
}

// faultPlan lists the fault injections for one file from the un-faulted syscall sequence.
func faultPlan(log []string, dir string) []string {
	counts := map[string]int{}
	var plan []string
	for _, l := range log {
		f := strings.Fields(l)
		if len(f) < 2 {
			continue
		}
		call := f[1]
		i := strings.Index(call, "(")
		if i <= 0 {
			continue
		}
		name := call[:i]
		counts[name]++
		if !strings.Contains(cwdRE.ReplaceAllString(l, "AT_FDCWD"), dir) {
			continue // only calls that touch the directory of the file are the formatter's own file operations
		}
		n := counts[name]
		plan = append(plan, fmt.Sprintf("%s:signal=KILL:when=%d", name, n))
		for _, e := range []string{"ENOSPC", "EIO", "EACCES"} {
			plan = append(plan, fmt.Sprintf("%s:error=%s:when=%d", name, e, n))
		}
	}
	return plan
}

// mustFail reports whether a fault on this call must make evy fmt fail: the calls the
// formatter needs (opening and reading the file, creating, writing and closing the temporary file, the rename).
func mustFail(line, target string) bool {
	switch {
	case strings.Contains(line, "renameat"):
		return true
	case strings.Contains(line, "openat(") && (strings.Contains(line, target) || strings.Contains(line, "/evy")):
		return true
	case strings.Contains(line, "read(") && strings.Contains(line, target+">"):
		return true
	case strings.Contains(line, "write("):
		return true
	case strings.Contains(line, "close(") && !strings.Contains(line, target+">"):
		return true // closing the temporary file
	case strings.Contains(line, "chmod"):
		return true
	}
	return false
}

type stats struct{ runs, kills, errors, between int }

func checkCase(c Case, st *stats) *h.Failure {
	mk := func(kind, detail string) *h.Failure {
		return &h.Failure{Kind: kind, Detail: detail, Src: c.Content, Case: c, Callsite: fmt.Sprintf("mode %04o", c.Mode)}
	}
	if _, err := os.Stat(evyBin()); err != nil {
		return nil
	}
	formatted, _, accepted, _ := fmtx.Format(c.Content)
	base, err := os.MkdirTemp("", "verif-c18-")
	if err != nil {
		return nil
	}
	defer os.RemoveAll(base)
	dir := filepath.Join(base, "d")
	target := filepath.Join(dir, "prog.evy")
	reset := func() {
		os.RemoveAll(dir)
		os.Mkdir(dir, 0o755)                           //nolint:errcheck
		os.WriteFile(target, []byte(c.Content), 0o644) //nolint:errcheck
		os.Chmod(target, os.FileMode(c.Mode))          //nolint:errcheck
	}
	// --check: exits 0 exactly for formatted input and modifies nothing
	reset()
	before := stat(target)
	for _, viaStdin := range []bool{false, true} {
		args, stdin := []string{"fmt", "-c", target}, ""
		if viaStdin {
			args, stdin = []string{"fmt", "-c"}, c.Content
			if c.Content == "" {
				continue
			}
		}
		res, err := run(dir, args, "", stdin)
		if err != nil {
			return nil
		}
		st.runs++
		wantZero := accepted && formatted == c.Content
		if (res.exit == 0) != wantZero {
			return mk("check-status", fmt.Sprintf("evy fmt -c (stdin=%v) exits %d; input parses=%v, already formatted=%v; output: %s", viaStdin, res.exit, accepted, formatted == c.Content, res.out))
		}
		after := stat(target)
		if after.content != before.content || after.mode != before.mode || !after.mtime.Equal(before.mtime) {
			return mk("check-modifies", "evy fmt -c changed the file (bytes, mode or mtime)")
		}
	}
	if c.Check {
		return nil
	}
	// un-faulted write: the file is formatted (or untouched if it does not parse), mode unchanged
	reset()
	clean, err := run(dir, []string{"fmt", "-w", target}, "", "")
	if err != nil {
		return nil
	}
	st.runs++
	after := stat(target)
	if !accepted {
		if clean.exit == 0 || after.content != c.Content || after.mode != os.FileMode(c.Mode) {
			return mk("unparsable-touched", fmt.Sprintf("a file that does not parse: exit %d, bytes changed=%v, mode %04o", clean.exit, after.content != c.Content, after.mode))
		}
		if !strings.Contains(clean.out, "prog.evy") {
			return mk("unparsable-message", "the error does not name the file: "+clean.out)
		}
		return nil
	}
	if clean.exit != 0 {
		if c.Mode&0o400 == 0 {
			return nil
		}
		return mk("write-failed", fmt.Sprintf("evy fmt -w failed on a valid file: exit %d %s", clean.exit, clean.out))
	}
	if after.content != formatted {
		return mk("wrong-content", fmt.Sprintf("after evy fmt -w the file holds %q, the formatter's output is %q", after.content, formatted))
	}
	if after.mode != os.FileMode(c.Mode) {
		return mk("mode-changed", fmt.Sprintf("evy fmt -w changed the permission bits from %04o to %04o", c.Mode, after.mode))
	}
	// the file that -w has just written is in formatted form: -c accepts it (a written text that no longer parses is a damaged file)
	if c.Mode&0o400 != 0 {
		if chk, err := run(dir, []string{"fmt", "-c", target}, "", ""); err == nil && chk.exit != 0 {
			return mk("written-text-rejected", fmt.Sprintf("evy fmt -c rejects the file that evy fmt -w has just written (exit %d): %s\nwritten:\n%s", chk.exit, chk.out, after.content))
		}
	}
	// faults: every file-related call of the un-faulted run, killed or failed
	plan := faultPlan(clean.log, dir)
	if c.Fault != "" {
		plan = []string{c.Fault}
	}
	for _, inj := range plan {
		reset()
		res, err := run(dir, []string{"fmt", "-w", target}, inj, "")
		if err != nil {
			continue
		}
		st.runs++
		if res.injected == "" && !res.killed {
			continue // the call did not occur this time
		}
		isKill := strings.Contains(inj, "signal=KILL")
		if isKill {
			st.kills++
		} else {
			st.errors++
		}
		got := stat(target)
		renamed := renamedBefore(res, target)
		cf := c
		cf.Fault = inj
		fail := func(kind, detail string) *h.Failure {
			return &h.Failure{Kind: kind, Detail: fmt.Sprintf("fault %s (%s): %s", inj, strings.TrimSpace(res.injected), detail), Src: c.Content, Case: cf, Callsite: fmt.Sprintf("mode %04o", c.Mode)}
		}
		if !got.exists {
			return fail("file-lost", "the source file no longer exists")
		}
		if got.content != c.Content && got.content != formatted {
			return fail("file-damaged", fmt.Sprintf("the file holds neither its original nor the formatted text: %q", got.content))
		}
		if !renamed && got.content != c.Content {
			return fail("changed-without-rename", "the file changed although no completed rename onto it is in the system call log:\n"+strings.Join(res.log, "\n"))
		}
		if got.mode != os.FileMode(c.Mode) {
			return fail("mode-changed", fmt.Sprintf("permission bits changed from %04o to %04o", c.Mode, got.mode))
		}
		if !isKill && res.injected != "" && mustFail(res.injected, target) && res.exit == 0 {
			return fail("failure-not-reported", "a file operation the formatter depends on failed, but evy fmt exits 0")
		}
		if !renamed && (strings.Contains(res.injected, "evy") || isKill) {
			st.between++
		}
	}
	return nil
}

func TestProp(t *testing.T) {
	if h.ReplayPath() != "" {
		t.Skip("replay run")
	}
	ctx := h.Setup(t, "C18")
	all := corpus.Small(1500)
	modeOpen := ctx.Open("F48")
	rapid.Check(t, func(t *rapid.T) {
		c := Case{}
		kind := rapid.SampledFrom([]string{"model", "model", "corpus", "formatted", "rejected", "empty", "tiny", "no-final-newline", "large"}).Draw(t, "kind")
		switch kind {
		case "model":
			cfg := gen.Default
			cfg.ExprDepth, cfg.BlockDepth, cfg.MaxStmts = 2, 2, 4
			g := gen.New(t, cfg)
			c.Content, _ = m.Render(g.Program(), eng.RapidLayout{T: t})
		case "corpus":
			c.Content = all[rapid.IntRange(0, len(all)-1).Draw(t, "prog")].Src
		case "formatted":
			src := all[rapid.IntRange(0, len(all)-1).Draw(t, "prog")].Src
			c.Content, _, _, _ = fmtx.Format(src)
		case "rejected":
			c.Content = rapid.SampledFrom([]string{"print x\n", "x := \n", "func\n", "if true\n", "end\n", "print \"a\n", "\x00", "x := 1\n"}).Draw(t, "bad")
		case "empty":
			c.Content = ""
		case "tiny":
			c.Content = rapid.SampledFrom([]string{"\n", " ", "x", "1", "//"}).Draw(t, "tiny")
		case "no-final-newline":
			c.Content = "x := 1\nprint   x"
		default:
			c.Content = strings.Repeat("print   1 2 3 // padding line to make the file large\n", 4000)
		}
		c.Mode = rapid.SampledFrom([]uint32{0o644, 0o600, 0o755, 0o664, 0o640, 0o444}).Draw(t, "mode")
		if modeOpen && c.Mode != 0o600 {
			ctx.Rec.Exclude("F48")
			c.Mode = 0o600
		}
		st := &stats{}
		fl := checkCase(c, st)
		_, _, accepted, _ := fmtx.Format(c.Content)
		ctx.Rec.Case(accepted, fmt.Sprintf("%04o|%s", c.Mode, c.Content), "file:"+kind, fmt.Sprintf("mode:%04o", c.Mode))
		ctx.Rec.Add("strace_runs", st.runs)
		ctx.Rec.Add("kill_points", st.kills)
		ctx.Rec.Add("injected_errors", st.errors)
		ctx.Rec.Add("faults_before_rename_completed", st.between)
		if ctx.Rec.WantSample() && len(c.Content) < 300 {
			ctx.Rec.Sample(map[string]any{"file": c.Content, "mode": fmt.Sprintf("%04o", c.Mode), "strace_runs": st.runs, "kills": st.kills, "errors": st.errors})
		}
		ctx.Report(t, fl)
	})
}

func TestReplay(t *testing.T) {
	path := h.ReplayPath()
	if path == "" {
		t.Skip("no replay requested")
	}
	ctx := h.Setup(t, "C18")
	var c Case
	if _, err := h.LoadReplay(path, &c); err != nil {
		t.Fatalf("cannot load replay: %v", err)
	}
	if len(c.Files) > 0 {
		ctx.FinishReplay(t, checkMulti(c))
		return
	}
	ctx.FinishReplay(t, checkCase(c, &stats{}))
}
