// Package h is the scaffolding shared by all property packages: evidence
// recorder, known-finding matching, replay files, tier and seed handling.
package h

import (
	"encoding/json"
	"fmt"
	"os"
	"regexp"
	"strings"
	"testing"
	"time"

	"verif/harness/ev"
)

// TB is the part of testing.T / rapid.T the harness needs.
type TB interface {
	Fatalf(format string, args ...any)
	Helper()
}

// Failure is one oracle failure on one case.
type Failure struct {
	Property string `json:"property"`
	Kind     string `json:"kind"`     // oracle that failed, e.g. "gopanic", "trace"
	Detail   string `json:"detail"`   // human-readable explanation
	Callsite string `json:"callsite"` // innermost evy frame for Go panics
	Src      string `json:"src"`      // the Evy source / input text of the case, if any
	Case     any    `json:"case"`     // full case, JSON-serialisable, sufficient for replay
}

func (f *Failure) String() string {
	return fmt.Sprintf("[%s] %s: %s", f.Property, f.Kind, f.Detail)
}

// Finding is one entry of known_findings.json.
type Finding struct {
	ID       string `json:"id"`
	Property string `json:"property"`
	Status   string `json:"status"` // open | fixed
	What     string `json:"what"`
	Record   string `json:"record,omitempty"`
	Commit   string `json:"commit,omitempty"`
	Repro    string `json:"repro,omitempty"`
	Match    struct {
		Kind     string `json:"kind"` // callsite | input | history (informational)
		FailKind string `json:"fail_kind,omitempty"`
		Frame    string `json:"frame,omitempty"`
		FrameRE  string `json:"frame_re,omitempty"`
		DetailRE string `json:"detail_re,omitempty"`
		SrcRE    string `json:"src_re,omitempty"`
	} `json:"match"`
	detailRE, srcRE, frameRE *regexp.Regexp
}

// Ctx is the per-test context.
type Ctx struct {
	Prop     string
	Tier     string
	Rec      *ev.Recorder
	Findings []*Finding
	out      string

	collected    map[string]int
	collectedLen map[string]int
}

// Setup reads the environment and arranges for evidence to be flushed.
func Setup(t *testing.T, prop string) *Ctx {
	c := &Ctx{Prop: prop, Tier: os.Getenv("VERIF_TIER"), Rec: ev.New(), out: os.Getenv("VERIF_OUT")}
	if c.Tier == "" {
		c.Tier = "quick"
	}
	c.loadFindings()
	t.Cleanup(c.Rec.Flush)
	return c
}

// Thorough reports whether the thorough tier is running.
func (c *Ctx) Thorough() bool { return c.Tier == "thorough" }

func (c *Ctx) loadFindings() {
	path := os.Getenv("VERIF_KNOWN")
	if path == "" {
		path = "/verif/known_findings.json"
	}
	b, err := os.ReadFile(path)
	if err != nil {
		return
	}
	var file struct {
		Findings []*Finding `json:"findings"`
	}
	if err := json.Unmarshal(b, &file); err != nil {
		panic("known_findings.json: " + err.Error())
	}
	for _, f := range file.Findings {
		if f.Match.DetailRE != "" {
			f.detailRE = regexp.MustCompile(f.Match.DetailRE)
		}
		if f.Match.SrcRE != "" {
			f.srcRE = regexp.MustCompile(f.Match.SrcRE)
		}
		if f.Match.FrameRE != "" {
			f.frameRE = regexp.MustCompile(f.Match.FrameRE)
		}
		c.Findings = append(c.Findings, f)
	}
}

// Open reports whether finding id is listed as open (so generators may steer around it).
func (c *Ctx) Open(id string) bool {
	for _, f := range c.Findings {
		if f.ID == id {
			return f.Status == "open"
		}
	}
	return false
}

// MatchKnown returns the open finding that explains the failure, or nil.
func (c *Ctx) MatchKnown(fl *Failure) *Finding {
	for _, f := range c.Findings {
		if f.Status != "open" || f.Property != fl.Property {
			continue
		}
		m := f.Match
		if m.FailKind == "" && m.Frame == "" && f.detailRE == nil && f.srcRE == nil && f.frameRE == nil {
			continue // an entry with no matcher suppresses nothing
		}
		if m.FailKind != "" && m.FailKind != fl.Kind {
			continue
		}
		if m.Frame != "" && !strings.Contains(fl.Callsite, m.Frame) {
			continue
		}
		if f.frameRE != nil && !f.frameRE.MatchString(fl.Callsite) {
			continue
		}
		if f.detailRE != nil && !f.detailRE.MatchString(fl.Detail) {
			continue
		}
		if f.srcRE != nil && !f.srcRE.MatchString(fl.Src) {
			continue
		}
		return f
	}
	return nil
}

// Report handles an oracle failure: a failure explained by an open known
// finding is counted and the search goes on; anything else writes the replay
// file and fails the test (rapid then shrinks; the last write is the minimum).
func (c *Ctx) Report(t TB, fl *Failure) {
	t.Helper()
	if fl == nil {
		return
	}
	fl.Property = c.Prop
	if f := c.MatchKnown(fl); f != nil {
		c.Rec.KnownHit(f.ID)
		return
	}
	if os.Getenv("VERIF_COLLECT") != "" { // development aid: list all distinct failures instead of stopping
		key := fl.Kind + "|" + fl.Callsite
		if c.collected == nil {
			c.collected = map[string]int{}
		}
		c.collected[key]++
		if c.collected[key] == 1 || len(fl.Src) < c.collectedLen[key] {
			if c.collectedLen == nil {
				c.collectedLen = map[string]int{}
			}
			c.collectedLen[key] = len(fl.Src)
			b, _ := json.Marshal(fl)
			f, _ := os.OpenFile(os.Getenv("VERIF_COLLECT"), os.O_APPEND|os.O_CREATE|os.O_WRONLY, 0o644)
			f.Write(append(b, '\n')) //nolint:errcheck
			f.Close()
		}
		return
	}
	c.WriteReplay(fl)
	d := fl.Detail
	if len(d) > 1500 {
		d = d[:1500] + "…"
	}
	t.Fatalf("VIOLATION-CANDIDATE %s kind=%s callsite=%s\n%s\nsrc:\n%s", c.Prop, fl.Kind, fl.Callsite, d, fl.Src)
}

// WriteReplay stores the failure as <VERIF_OUT>.replay.json.
func (c *Ctx) WriteReplay(fl *Failure) {
	if c.out == "" {
		return
	}
	b, _ := json.MarshalIndent(fl, "", " ")
	os.WriteFile(c.out+".replay.json", b, 0o644) //nolint:errcheck
}

// LoadReplay reads a replay (or finding repro) file and decodes its case into v.
func LoadReplay(path string, v any) (*Failure, error) {
	b, err := os.ReadFile(path)
	if err != nil {
		return nil, err
	}
	var raw struct {
		Failure
		Case json.RawMessage `json:"case"`
	}
	if err := json.Unmarshal(b, &raw); err != nil {
		return nil, err
	}
	if err := json.Unmarshal(raw.Case, v); err != nil {
		return nil, err
	}
	fl := raw.Failure
	return &fl, nil
}

// ReplayPath is the file to replay, if this process was started for a replay.
func ReplayPath() string { return os.Getenv("VERIF_REPLAY") }

// ReplayResult is written by replay runs so the driver can tell what happened.
type ReplayResult struct {
	Failed  bool     `json:"failed"`
	Known   string   `json:"known,omitempty"`
	Failure *Failure `json:"failure,omitempty"`
}

// FinishReplay reports the result of replaying one case: it prints a line the
// driver parses and writes <VERIF_OUT>.replayresult.json.
func (c *Ctx) FinishReplay(t *testing.T, fl *Failure) {
	r := ReplayResult{}
	if fl != nil {
		fl.Property = c.Prop
		r.Failed = true
		r.Failure = fl
		if f := c.MatchKnown(fl); f != nil {
			r.Known = f.ID
		}
	}
	if c.out != "" {
		b, _ := json.MarshalIndent(r, "", " ")
		os.WriteFile(c.out+".replayresult.json", b, 0o644) //nolint:errcheck
	}
	if fl != nil {
		t.Logf("REPLAY-FAILED known=%q %s", r.Known, fl)
	} else {
		t.Logf("REPLAY-PASSED")
	}
}

// Watch arms a watchdog for one case: if done is not called within limit the
// case text is written to <VERIF_OUT>.hang.txt and the process exits with status 3
// (a Go program cannot interrupt a computation that never yields).
func Watch(src string, limit time.Duration) (done func()) {
	return WatchFail(src, limit, nil)
}

// WatchFail is Watch for properties where not terminating is itself a
// violation: on timeout onHang is written as the replay file before exiting.
func WatchFail(src string, limit time.Duration, onHang *Failure) (done func()) {
	ch := make(chan struct{})
	go func() {
		select {
		case <-ch:
		case <-time.After(limit):
			if out := os.Getenv("VERIF_OUT"); out != "" {
				os.WriteFile(out+".hang.txt", []byte(src), 0o644) //nolint:errcheck
				if onHang != nil {
					b, _ := json.MarshalIndent(onHang, "", " ")
					os.WriteFile(out+".replay.json", b, 0o644) //nolint:errcheck
				}
			}
			fmt.Fprintf(os.Stderr, "WATCHDOG: case did not finish within %s:\n%s\n", limit, src)
			os.Exit(3)
		}
	}()
	return func() { close(ch) }
}

// WatchProgress is WatchFail for runs that may legitimately take long: the violation is
// reported only if the progress counter does not move for the whole of stall; a run that
// keeps making progress is never interrupted.
func WatchProgress(src string, progress func() int64, stall time.Duration, onStall *Failure) (done func()) {
	ch := make(chan struct{})
	go func() {
		last, since := progress(), time.Now()
		tick := time.NewTicker(2 * time.Second)
		defer tick.Stop()
		for {
			select {
			case <-ch:
				return
			case <-tick.C:
				if now := progress(); now != last {
					last, since = now, time.Now()
				} else if time.Since(since) >= stall {
					if out := os.Getenv("VERIF_OUT"); out != "" {
						os.WriteFile(out+".hang.txt", []byte(src), 0o644) //nolint:errcheck
						if onStall != nil {
							b, _ := json.MarshalIndent(onStall, "", " ")
							os.WriteFile(out+".replay.json", b, 0o644) //nolint:errcheck
						}
					}
					fmt.Fprintf(os.Stderr, "WATCHDOG: no progress for %s:\n%s\n", stall, src)
					os.Exit(3)
				}
			}
		}
	}()
	return func() { close(ch) }
}

// MinimizeLines shrinks a source text line by line (delta debugging on
// lines, then on single lines) while pred keeps holding.
func MinimizeLines(src string, pred func(string) bool) string {
	lines := strings.Split(src, "\n")
	join := func(l []string) string { return strings.Join(l, "\n") }
	for chunk := len(lines) / 2; chunk >= 1; chunk /= 2 {
		for i := 0; i+chunk <= len(lines); {
			cand := append(append([]string{}, lines[:i]...), lines[i+chunk:]...)
			if pred(join(cand)) {
				lines = cand
			} else {
				i += chunk
			}
		}
	}
	return join(lines)
}
