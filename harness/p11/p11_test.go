// Package p11 decides C11: index and slice laws for arrays and strings.
package p11

import (
	"fmt"
	"math"
	"strings"
	"testing"

	"pgregory.net/rapid"
	"verif/harness/eng"
	"verif/harness/gen"
	"verif/harness/h"
	"verif/harness/m"
)

// special index values beyond the integer window
var specials = []struct {
	name string
	e    m.Expr
}{
	{"half", m.NumLit(0.5)},
	{"neghalf", m.NumLit(-0.5)},
	{"1.5", m.NumLit(1.5)},
	{"tiny", m.NumLit(0.000001)},
	{"2^31", m.NumLit(2147483648)},
	{"-2^31-1", m.NumLit(-2147483649)},
	{"2^53", m.NumLit(9007199254740992)},
	{"2^63", m.NumLit(9223372036854775808)},
	{"-2^63", m.NumLit(-9223372036854775808)},
	{"1e300", &m.Binary{Op: "*", L: m.NumLit(1e150), R: m.NumLit(1e150), Ty: m.TNum}},
	{"nan", &m.Binary{Op: "/", L: m.NumLit(0), R: m.NumLit(0), Ty: m.TNum}},
	{"inf", &m.Binary{Op: "/", L: m.NumLit(1), R: m.NumLit(0), Ty: m.TNum}},
	{"-inf", &m.Binary{Op: "/", L: m.NumLit(-1), R: m.NumLit(0), Ty: m.TNum}},
	{"negzero", &m.Unary{Op: "-", X: m.NumLit(0)}},
}

type probe struct {
	kind  string // read, slice, write, fresh
	class string
	stmts []m.Stmt
}

func idxExpr(i int, style int) m.Expr {
	switch style {
	case 1:
		return &m.Binary{Op: "+", L: m.NumLit(float64(i)), R: m.NumLit(0), Ty: m.TNum}
	case 2:
		return &m.Binary{Op: "-", L: m.NumLit(float64(i + 3)), R: m.NumLit(3), Ty: m.TNum}
	}
	return m.NumLit(float64(i))
}

func boundaryClass(i, n int) string {
	switch i {
	case -n - 1, -n, -1, 0, n - 1, n, n + 1:
		return "boundary"
	}
	return "interior"
}

func TestProp(t *testing.T) {
	if h.ReplayPath() != "" {
		t.Skip("replay run")
	}
	ctx := h.Setup(t, "C11")
	rapid.Check(t, func(t *rapid.T) {
		// the container
		isStr := rapid.Bool().Draw(t, "string")
		n := rapid.IntRange(0, 7).Draw(t, "len")
		var lit m.Expr
		var cty *m.Type
		var elemTy *m.Type
		nonASCII := false
		if isStr {
			alphabet := []string{"a", "b", "z", "ä", "日", "🌍", "é", " ", "\"", "\\", "%", "ß"}
			s := ""
			for i := 0; i < n; i++ {
				c := rapid.SampledFrom(alphabet).Draw(t, "ch")
				nonASCII = nonASCII || c[0] >= 0x80 || len(c) > 1
				s += c
			}
			n = len([]rune(s))
			lit, cty, elemTy = m.StrLit(s), m.TStr, m.TStr
		} else {
			elemTy = []*m.Type{m.TNum, m.TStr, m.ArrOf(m.TNum), m.TBool}[rapid.IntRange(0, 3).Draw(t, "elemty")]
			a := &m.ArrLit{Ty: m.ArrOf(elemTy)}
			for i := 0; i < n; i++ {
				switch elemTy.K {
				case m.Num:
					a.Elems = append(a.Elems, m.NumLit(float64(10+i)))
				case m.Str:
					a.Elems = append(a.Elems, m.StrLit(fmt.Sprintf("s%d", i)))
				case m.Bool:
					a.Elems = append(a.Elems, m.BoolLit(i%2 == 0))
				default:
					a.Elems = append(a.Elems, &m.ArrLit{Ty: elemTy, Elems: []m.Expr{m.NumLit(float64(i)), m.NumLit(float64(i * i))}})
				}
			}
			lit, cty = a, a.Ty
		}
		declC := func() []m.Stmt {
			if !isStr && n == 0 {
				return []m.Stmt{&m.Decl{Name: "c", Ty: cty, Typed: true}}
			}
			return []m.Stmt{&m.Decl{Name: "c", Ty: cty, Init: lit}}
		}
		c := &m.Var{Name: "c", Ty: cty}
		style := rapid.IntRange(0, 2).Draw(t, "idxstyle")
		viaVar := rapid.Bool().Draw(t, "viavar")
		var probes []probe
		withIdx := func(ix m.Expr, f func(ix m.Expr) []m.Stmt) []m.Stmt {
			st := declC()
			if viaVar {
				st = append(st, &m.Decl{Name: "i", Ty: m.TNum, Init: ix})
				ix = &m.Var{Name: "i", Ty: m.TNum}
			}
			return append(st, f(ix)...)
		}
		newVal := func() m.Expr {
			switch elemTy.K {
			case m.Num:
				return m.NumLit(99)
			case m.Str:
				return m.StrLit("new")
			case m.Bool:
				return m.BoolLit(true)
			}
			return &m.ArrLit{Ty: elemTy, Elems: []m.Expr{m.NumLit(-1)}}
		}
		// complete sweep of the integer window for reads and writes
		for i := -n - 2; i <= n+2; i++ {
			cls := boundaryClass(i, n)
			probes = append(probes, probe{"read", cls, withIdx(idxExpr(i, style), func(ix m.Expr) []m.Stmt {
				return []m.Stmt{gen.Print(m.StrLit("before")), gen.Print(&m.Index{X: c, I: ix, Ty: elemTy}), gen.Print(m.StrLit("after"), c)}
			})})
			if !isStr {
				probes = append(probes, probe{"write", cls, withIdx(idxExpr(i, style), func(ix m.Expr) []m.Stmt {
					return []m.Stmt{
						&m.Decl{Name: "alias", Ty: cty, Init: c},
						&m.Assign{Target: &m.Index{X: c, I: ix, Ty: elemTy}, Val: newVal()},
						gen.Print(m.StrLit("after"), c, &m.Var{Name: "alias", Ty: cty}),
					}
				})})
			}
		}
		for _, sp := range specials {
			sp := sp
			probes = append(probes, probe{"read", "special:" + sp.name, withIdx(sp.e, func(ix m.Expr) []m.Stmt {
				return []m.Stmt{gen.Print(&m.Index{X: c, I: ix, Ty: elemTy}), gen.Print(m.StrLit("after"))}
			})})
			probes = append(probes, probe{"slice", "special:" + sp.name, withIdx(sp.e, func(ix m.Expr) []m.Stmt {
				return []m.Stmt{gen.Print(&m.Slice{X: c, Lo: ix}), gen.Print(&m.Slice{X: c, Hi: ix}), gen.Print(m.StrLit("after"))}
			})})
			if !isStr {
				probes = append(probes, probe{"write", "special:" + sp.name, withIdx(sp.e, func(ix m.Expr) []m.Stmt {
					return []m.Stmt{&m.Assign{Target: &m.Index{X: c, I: ix, Ty: elemTy}, Val: newVal()}, gen.Print(m.StrLit("after"), c)}
				})})
			}
		}
		// all pairs of slice bounds from the window, including omitted bounds
		const omitted = math.MinInt32
		bounds := []int{omitted}
		for i := -n - 2; i <= n+2; i++ {
			bounds = append(bounds, i)
		}
		for _, lo := range bounds {
			for _, hi := range bounds {
				sl := &m.Slice{X: c}
				cls := "interior"
				if lo != omitted {
					sl.Lo = idxExpr(lo, style)
					cls = boundaryClass(lo, n)
				}
				if hi != omitted {
					sl.Hi = idxExpr(hi, style)
					if cls != "boundary" {
						cls = boundaryClass(hi, n)
					}
				}
				st := declC()
				st = append(st, &m.Decl{Name: "s", Ty: cty, Init: sl}, gen.Print(m.StrLit("slice"), &m.Var{Name: "s", Ty: cty}))
				if !isStr {
					// freshness: change the source, the slice must not change, and vice versa
					sv := &m.Var{Name: "s", Ty: cty}
					st = append(st,
						&m.If{Conds: []m.Expr{&m.Binary{Op: ">", L: &m.Call{Fn: "len", Args: []m.Expr{m.AsAny(c)}, Ty: m.TNum}, R: m.NumLit(0), Ty: m.TBool}},
							Blocks: [][]m.Stmt{{&m.Assign{Target: &m.Index{X: c, I: m.NumLit(0), Ty: elemTy}, Val: newVal()}, &m.Assign{Target: &m.Index{X: c, I: m.NumLit(-1), Ty: elemTy}, Val: newVal()}}}},
						gen.Print(m.StrLit("after-src-change"), c, sv),
						&m.If{Conds: []m.Expr{&m.Binary{Op: ">", L: &m.Call{Fn: "len", Args: []m.Expr{m.AsAny(sv)}, Ty: m.TNum}, R: m.NumLit(0), Ty: m.TBool}},
							Blocks: [][]m.Stmt{{&m.Assign{Target: &m.Index{X: sv, I: m.NumLit(0), Ty: elemTy}, Val: newVal()}}}},
						gen.Print(m.StrLit("after-slice-change"), c, sv),
					)
				}
				probes = append(probes, probe{"slice", cls, st})
			}
		}
		lay := eng.RapidLayout{T: t, Calm: true}
		for _, pr := range probes {
			prog := &m.Program{}
			for _, s := range pr.stmts {
				prog.Items = append(prog.Items, m.Item{S: s})
			}
			src, _ := m.Render(prog, lay)
			in := m.NewInterp(prog, nil)
			in.AllowNonFinite = true
			out := in.Run()
			if eng.Skip(out) {
				ctx.Rec.Case(false, src, "skipped:"+out.Class)
				continue
			}
			cs := eng.ProgCase{Src: src, Expect: in.Log, ExpectClass: out.Class, ExpectMsg: out.Msg}
			fl, skipped, _ := eng.Check(cs)
			if skipped {
				continue
			}
			nontrivial := pr.class != "interior" || nonASCII
			kind := "array"
			if isStr {
				kind = "string"
			}
			ctx.Rec.Case(nontrivial, src, "probe:"+pr.kind, "class:"+pr.class, "outcome:"+out.Class, "container:"+kind)
			if nontrivial && ctx.Rec.WantSample() && out.Class != "ok" {
				ctx.Rec.Sample(map[string]any{"src": src, "expect": in.Log, "class": out.Class})
			}
			ctx.Report(t, fl)
		}
		ctx.Rec.Add("containers_swept_completely", 1)
	})
}

func TestReplay(t *testing.T) {
	path := h.ReplayPath()
	if path == "" {
		t.Skip("no replay requested")
	}
	ctx := h.Setup(t, "C11")
	var c eng.ProgCase
	if _, err := h.LoadReplay(path, &c); err != nil {
		t.Fatalf("cannot load replay: %v", err)
	}
	if strings.HasPrefix(c.Note, "string-store|") {
		fl, _ := checkStringStore(c)
		ctx.FinishReplay(t, fl)
		return
	}
	fl, _, _ := eng.Check(c)
	ctx.FinishReplay(t, fl)
}
