package p11

import (
	"strconv"
	"testing"

	"pgregory.net/rapid"
	"verif/harness/eng"
	"verif/harness/gen"
	"verif/harness/h"
	"verif/harness/m"
)

// TestHistory: index and slice laws over a history. The sweeps of TestProp look at one
// container and one expression at a time; here strings and arrays live in variables, are
// read by index, sliced, concatenated from slices, re-assigned and read again, so that a
// result that shares storage with its source (or a cached decoding of a string that goes
// stale) shows as a wrong element later. The generator tracks the values only to keep
// the bounds valid; the expected output comes from the reference interpreter.

type hvar struct {
	name  string
	isStr bool
	runes []rune    // strings
	nums  []float64 // arrays
}

var histStrs = []string{"abcdef", "héllo wörld", "日本語テキスト", "a🌍b🌎c", "xy", "0123456789", "ß", ""}

type hist struct {
	t    *rapid.T
	vars []*hvar
	n    int
	lit  float64
	out  []m.Stmt
	ops  map[string]bool
}

func (s *hist) fresh(prefix string) string { s.n++; return prefix + strconv.Itoa(s.n) }

func (s *hist) ty(v *hvar) *m.Type {
	if v.isStr {
		return m.TStr
	}
	return m.ArrOf(m.TNum)
}

func (s *hist) ref(v *hvar) *m.Var { return &m.Var{Name: v.name, Ty: s.ty(v)} }

func (s *hist) length(v *hvar) int {
	if v.isStr {
		return len(v.runes)
	}
	return len(v.nums)
}

func (s *hist) pick(isStr bool) *hvar {
	var c []*hvar
	for _, v := range s.vars {
		if v.isStr == isStr {
			c = append(c, v)
		}
	}
	return c[rapid.IntRange(0, len(c)-1).Draw(s.t, "var")]
}

// bound renders position p of a container of length n, sometimes from the end
func (s *hist) bound(p, n int) m.Expr {
	if p < n && rapid.IntRange(0, 3).Draw(s.t, "fromend") == 0 {
		return m.NumLit(float64(p - n))
	}
	return m.NumLit(float64(p))
}

// slice builds v[lo:hi] with valid bounds and returns the model value
func (s *hist) slice(v *hvar) (m.Expr, *hvar) {
	n := s.length(v)
	lo := rapid.IntRange(0, n).Draw(s.t, "lo")
	hi := rapid.IntRange(lo, n).Draw(s.t, "hi")
	sl := &m.Slice{X: s.ref(v)}
	if lo > 0 || rapid.Bool().Draw(s.t, "explicitlo") {
		sl.Lo = s.bound(lo, n)
	}
	if hi < n || rapid.Bool().Draw(s.t, "explicithi") {
		sl.Hi = s.bound(hi, n)
	}
	r := &hvar{isStr: v.isStr}
	if v.isStr {
		r.runes = append([]rune{}, v.runes[lo:hi]...)
	} else {
		r.nums = append([]float64{}, v.nums[lo:hi]...)
	}
	return sl, r
}

// operand is a variable, a slice of a variable, or a literal
func (s *hist) operand(isStr bool) (m.Expr, *hvar) {
	v := s.pick(isStr)
	switch rapid.IntRange(0, 3).Draw(s.t, "operand") {
	case 0:
		return s.ref(v), v
	case 1, 2:
		return s.slice(v)
	}
	if isStr {
		str := rapid.SampledFrom([]string{"-", "äö", "", "終"}).Draw(s.t, "strlit")
		return m.StrLit(str), &hvar{isStr: true, runes: []rune(str)}
	}
	s.lit++
	return &m.ArrLit{Ty: m.ArrOf(m.TNum), Elems: []m.Expr{m.NumLit(900 + s.lit)}}, &hvar{nums: []float64{900 + s.lit}}
}

func concat(a, b *hvar) *hvar {
	r := &hvar{isStr: a.isStr}
	r.runes = append(append([]rune{}, a.runes...), b.runes...)
	r.nums = append(append([]float64{}, a.nums...), b.nums...)
	return r
}

func (s *hist) observe(label string) {
	args := []m.Expr{m.StrLit(label)}
	for _, v := range s.vars {
		args = append(args, s.ref(v), &m.Call{Fn: "len", Args: []m.Expr{m.AsAny(s.ref(v))}, Ty: m.TNum})
		n := s.length(v)
		if n > 0 {
			et := m.TNum
			if v.isStr {
				et = m.TStr
			}
			for _, i := range []int{0, n / 2, n - 1, -1, -n} {
				args = append(args, &m.Index{X: s.ref(v), I: m.NumLit(float64(i)), Ty: et})
			}
		}
	}
	s.out = append(s.out, gen.Print(args...))
}

func (s *hist) step() {
	isStr := rapid.IntRange(0, 2).Draw(s.t, "onstring") > 0
	switch rapid.IntRange(0, 7).Draw(s.t, "op") {
	case 0: // new variable from a slice
		e, val := s.slice(s.pick(isStr))
		val.name = s.fresh("v")
		s.out = append(s.out, &m.Decl{Name: val.name, Ty: s.ty(val), Init: e})
		s.vars = append(s.vars, val)
		s.ops["decl-slice"] = true
	case 1, 2: // new variable from a concatenation of operands
		l, lv := s.operand(isStr)
		r, rv := s.operand(isStr)
		val := concat(lv, rv)
		val.name = s.fresh("v")
		s.out = append(s.out, &m.Decl{Name: val.name, Ty: s.ty(val), Init: &m.Binary{Op: "+", L: l, R: r, Ty: s.ty(val)}})
		s.vars = append(s.vars, val)
		s.ops["decl-concat"] = true
	case 3: // re-assignment from a concatenation (the usual "remove / insert an element" idiom)
		tgt := s.pick(isStr)
		l, lv := s.operand(isStr)
		r, rv := s.operand(isStr)
		val := concat(lv, rv)
		s.out = append(s.out, &m.Assign{Target: s.ref(tgt), Val: &m.Binary{Op: "+", L: l, R: r, Ty: s.ty(tgt)}})
		tgt.runes, tgt.nums = val.runes, val.nums
		s.ops["assign-concat"] = true
	case 4: // re-assignment from a slice
		tgt := s.pick(isStr)
		e, val := s.slice(s.pick(isStr))
		s.out = append(s.out, &m.Assign{Target: s.ref(tgt), Val: e})
		tgt.runes, tgt.nums = val.runes, val.nums
		s.ops["assign-slice"] = true
	case 5: // element store (arrays only)
		v := s.pick(false)
		if n := len(v.nums); n > 0 {
			i := rapid.IntRange(-n, n-1).Draw(s.t, "storeidx")
			s.lit++
			s.out = append(s.out, &m.Assign{Target: &m.Index{X: s.ref(v), I: m.NumLit(float64(i)), Ty: m.TNum}, Val: m.NumLit(500 + s.lit)})
			v.nums[(i+n)%n] = 500 + s.lit
			s.ops["store"] = true
		}
	case 6: // walk over it
		v := s.pick(isStr)
		et := m.TNum
		if isStr {
			et = m.TStr
		}
		e := s.fresh("e")
		s.out = append(s.out, &m.ForIn{V: e, X: s.ref(v), Body: []m.Stmt{gen.Print(m.StrLit("el"), &m.Var{Name: e, Ty: et})}})
		s.ops["range"] = true
	case 7: // repetition and slice of the result (arrays)
		v := s.pick(false)
		val := &hvar{name: s.fresh("v")}
		val.nums = append(append([]float64{}, v.nums...), v.nums...)
		s.out = append(s.out, &m.Decl{Name: val.name, Ty: m.ArrOf(m.TNum), Init: &m.Binary{Op: "*", L: s.ref(v), R: m.NumLit(2), Ty: m.ArrOf(m.TNum)}})
		s.vars = append(s.vars, val)
		s.ops["repeat"] = true
	}
}

func TestHistory(t *testing.T) {
	if h.ReplayPath() != "" {
		t.Skip("replay run")
	}
	ctx := h.Setup(t, "C11")
	rapid.Check(t, func(t *rapid.T) {
		s := &hist{t: t, ops: map[string]bool{}}
		nonASCII := false
		for i := 0; i < 2; i++ {
			str := rapid.SampledFrom(histStrs).Draw(t, "str")
			nonASCII = nonASCII || len(str) != len([]rune(str))
			v := &hvar{name: s.fresh("v"), isStr: true, runes: []rune(str)}
			s.out = append(s.out, &m.Decl{Name: v.name, Ty: m.TStr, Init: m.StrLit(str)})
			s.vars = append(s.vars, v)
		}
		a := &hvar{name: s.fresh("v")}
		al := &m.ArrLit{Ty: m.ArrOf(m.TNum)}
		for i := 0; i < rapid.IntRange(1, 6).Draw(t, "arrlen"); i++ {
			a.nums = append(a.nums, float64(10+i))
			al.Elems = append(al.Elems, m.NumLit(float64(10+i)))
		}
		s.out = append(s.out, &m.Decl{Name: a.name, Ty: m.ArrOf(m.TNum), Init: al})
		s.vars = append(s.vars, a)
		s.observe("start")
		nsteps := rapid.IntRange(2, 10).Draw(t, "nsteps")
		for i := 0; i < nsteps; i++ {
			s.step()
			s.observe("step" + strconv.Itoa(i))
		}
		prog := &m.Program{}
		for _, x := range s.out {
			prog.Items = append(prog.Items, m.Item{S: x})
		}
		src, _ := m.Render(prog, eng.RapidLayout{T: t, Calm: true})
		in := m.NewInterp(prog, nil)
		out := in.Run()
		if eng.Skip(out) {
			ctx.Rec.Case(false, src, "history-skipped:"+out.Class)
			return
		}
		cs := eng.ProgCase{Src: src, Expect: in.Log, ExpectClass: out.Class, ExpectMsg: out.Msg}
		fl, skipped, _ := eng.Check(cs)
		if skipped {
			ctx.Rec.Case(false, src, "history-skipped:fuel")
			return
		}
		labels := []string{"probe:history", "outcome:" + out.Class}
		for k := range s.ops {
			labels = append(labels, "history-op:"+k)
		}
		nontrivial := len(s.ops) >= 2
		ctx.Rec.Case(nontrivial, src, labels...)
		if nontrivial && nonASCII && ctx.Rec.WantSample() && len(src) < 900 {
			ctx.Rec.Sample(map[string]any{"src": src, "class": out.Class})
		}
		ctx.Report(t, fl)
	})
}
