package p11

import (
	"fmt"
	"strings"
	"testing"

	"pgregory.net/rapid"
	"verif/harness/eng"
	"verif/harness/h"
	"verif/harness/m"
	"verif/harness/rec"
)

// TestStringStore: an assignment through an index into a string, wherever the string sits
// (a variable, an array element, a map value, nested), for every index of the window
// [-n-2, n+2]. The program is either rejected by the parser or ends in a documented way;
// it never ends with an internal error, a host crash, or as a silent no-op that was accepted.
func TestStringStore(t *testing.T) {
	if h.ReplayPath() != "" {
		t.Skip("replay run")
	}
	ctx := h.Setup(t, "C11")
	rapid.Check(t, func(t *rapid.T) {
		alphabet := []string{"a", "b", "ä", "日", "🌍", " "}
		n := rapid.IntRange(0, 4).Draw(t, "len")
		s := ""
		for i := 0; i < n; i++ {
			s += rapid.SampledFrom(alphabet).Draw(t, "ch")
		}
		q := m.Quote(s)
		where := rapid.SampledFrom([][2]string{
			{"v := " + q, "v"},
			{"v := [" + q + " \"zz\"]", "v[0]"},
			{"v := [" + q + " \"zz\"]", "v[-2]"},
			{"v := {k:" + q + "}", "v.k"},
			{"v := {k:" + q + "}", "v[\"k\"]"},
			{"v := [[" + q + "]]", "v[0][0]"},
			{"v := [{k:" + q + "}]", "v[0].k"},
			{"v := {k:[" + q + "]}", "v.k[0]"},
			{"v := {k:{l:" + q + "}}", "v.k.l"},
		}).Draw(t, "where")
		inBranch := rapid.Bool().Draw(t, "inbranch")
		for i := -n - 2; i <= n+2; i++ {
			store := fmt.Sprintf("%s[%d] = \"x\"", where[1], i)
			src := where[0] + "\n" + store + "\nprint v\n"
			if inBranch {
				src = where[0] + "\nif (len v) > 100\n    " + store + "\nend\nprint v\n"
			}
			fl, cls := checkStringStore(eng.ProgCase{Src: src, Note: fmt.Sprintf("string-store|%v|%s", inBranch, s)})
			ctx.Rec.Case(true, src, "probe:string-store", "outcome:"+strings.SplitN(cls, ":", 2)[0])
			ctx.Report(t, fl)
		}
	})
}

// checkStringStore is the oracle of TestStringStore for one program (Note carries "string-store|<in branch>|<the string>").
func checkStringStore(c eng.ProgCase) (*h.Failure, string) {
	parts := strings.SplitN(c.Note, "|", 3)
	inBranch, s := parts[1] == "true", parts[2]
	res := rec.Run(c.Src, rec.Opts{Fuel: 2000})
	cls := res.Out.Class
	switch {
	case cls == "gopanic" || cls == "internal":
		return &h.Failure{Kind: "string-store-" + cls, Detail: "an assignment through an index into a string ended with " + res.Out.String(), Src: c.Src, Case: c, Callsite: rec.TopFrame(res.Out.Stack)}, cls
	case cls == "ok" && !inBranch && len(res.Trace) > 0 && strings.Contains(strings.Join(res.Trace, ""), s):
		// accepted, executed, and the string is unchanged: a silent no-op
		return &h.Failure{Kind: "string-store-silent", Detail: "the assignment was accepted and executed without any effect or diagnostic", Src: c.Src, Case: c}, cls
	}
	return nil, cls
}
